"""Reference decoders / block parsers written from the format specifications (not from pycaption).
They are plain python loops so that they run on CrossHair's symbolic strings as well."""

XML_ENT = (("&amp;", "&"), ("&lt;", "<"), ("&gt;", ">"), ("&quot;", '"'), ("&apos;", "'"))
VTT_ENT = (("&amp;", "&"), ("&lt;", "<"), ("&gt;", ">"), ("&nbsp;", "\u00a0"), ("&lrm;", "\u200e"), ("&rlm;", "\u200f"))


def decode_entities(s, table):
    """Decode character data in which every '&' must start one of the table's references and no
    raw '<' may occur.  Returns (ok, text)."""
    out = ""
    i = 0
    n = len(s)
    while i < n:
        c = s[i]
        if c == "<":
            return False, out
        if c == "&":
            hit = False
            for ent, ch in table:
                if s.startswith(ent, i):
                    out += ch
                    i += len(ent)
                    hit = True
                    break
            if not hit:
                return False, out
        else:
            out += c
            i += 1
    return True, out


def printable(cps, lo, hi):
    """lo <= len <= hi, every code point printable (no controls, no line/paragraph separators).
    Written with non-short-circuit operators so that CrossHair keeps one path per length."""
    if not (lo <= len(cps) <= hi):
        return False
    ok = True
    for c in cps:
        ok = ok & (((32 <= c) & (c <= 126)) | ((160 <= c) & (c <= 767)))
    return ok


META = (38, 60, 62, 34, 39, 45, 59, 35, 124, 123, 125, 58, 32, 97, 108, 116, 103, 109, 112, 120, 51, 110, 98, 115)
# & < > " ' - ; # | { } : space a l t g m p x 3 n b s


def metachars(cps, lo, hi):
    if not (lo <= len(cps) <= hi):
        return False
    ok = True
    for c in cps:
        m = False
        for k in META:
            m = m | (c == k)
        ok = ok & m
    return ok


def text_of(cps):
    return "".join(chr(c) for c in cps)


def visible(s):
    return s.strip() != ""
