"""C07 - DFXP output is well-formed and internally consistent.

Real code: DFXPWriter.write/_recreate_p_tag/_recreate_text/_recreate_span/_recreate_styling_tag, module
_recreate_style, RegionCreator (create_document_regions, get_positioning_info, cleanup_regions),
LegacyDFXPWriter (same pieces), SinglePositioningDFXPWriter - on the contract stub of bs4, which records every
attribute value and p.string exactly as pycaption hands them over (bs4 emits them verbatim with formatter=None).
Oracle: hand-assembled span markup is well-formed (balanced, attribute values free of '<', bare '&' and of the
delimiting quote); attribute values handed to bs4 are free of '<' and bare '&'; every region= reference resolves
to exactly one region definition, ids are unique, every defined region is referenced, one div per written
language and one p per caption.
"""
import pycaption.dfxp.base as db
import pycaption.dfxp.extras as dx
from pycaption.dfxp import DFXPWriter
from pycaption.dfxp.extras import LegacyDFXPWriter, SinglePositioningDFXPWriter
from pycaption.base import Caption, CaptionNode, CaptionSet, CaptionList
from harness.fakesoup import dfxp_soup, FTag
from harness.csbuild import build_set, StableHash, layout
from harness.ref_text import text_of, printable, visible

VAL_ALPHA = (34, 39, 38, 60, 62, 97, 59, 32)  # " ' & < > a ; space


def _vals(cps, lo, hi):
    if not (lo <= len(cps) <= hi):
        return False
    ok = True
    for c in cps:
        m = False
        for k in VAL_ALPHA:
            m = m | (c == k)
        ok = ok & m
    return ok


ENTS = ("&amp;", "&lt;", "&gt;", "&quot;", "&apos;")


def _attr_value_ok(v, quote):
    """v as it stands between the quotes of an attribute"""
    i = 0
    n = len(v)
    while i < n:
        c = v[i]
        if c == "<":
            return False
        if quote is not None and c == quote:
            return False
        if c == "&":
            hit = False
            for e in ENTS:
                if v.startswith(e, i):
                    i += len(e)
                    hit = True
                    break
            if not hit:
                return False
        else:
            i += 1
    return True


def _decode(v):
    for e, ch in zip(ENTS, ("&", "<", ">", '"', "'")):
        v = v.replace(e, "\x00" + ch) if e != "&amp;" else v
    v = v.replace("&amp;", "&").replace("\x00", "")
    return v


def _fragment_ok(frag):
    """(error or "", list of (name, raw value) of all span attributes)"""
    attrs = []
    depth = 0
    i = 0
    n = len(frag)
    while i < n:
        if frag.startswith("</span>", i):
            depth -= 1
            if depth < 0:
                return "unbalanced </span>", attrs
            i += 7
        elif frag.startswith("<br/>", i):
            i += 5
        elif frag.startswith("<span", i):
            j = i + 5
            names = []
            while True:
                if j >= n:
                    return "unterminated start tag", attrs
                if frag[j] == ">":
                    j += 1
                    break
                if frag[j] != " ":
                    return "malformed start tag", attrs
                j += 1
                k = frag.find("=", j)
                if k < 0 or k + 1 >= n or frag[k + 1] not in "\"'":
                    return "malformed attribute", attrs
                q = frag[k + 1]
                e = frag.find(q, k + 2)
                if e < 0:
                    return "unterminated attribute value", attrs
                name, val = frag[j:k], frag[k + 2:e]
                if name.strip() in names:
                    return "attribute specified twice in one start tag", attrs
                names.append(name.strip())
                if not _attr_value_ok(val, None):
                    return "attribute value is not well-formed", attrs
                attrs.append((name, val))
                j = e + 1
            depth += 1
            i = j
        elif frag[i] == "<":
            return "stray '<'", attrs
        else:
            i += 1
    if depth != 0:
        return "unclosed span", attrs
    return "", attrs


def _with_fake(fn):
    old = (db.BeautifulSoup, dx.BeautifulSoup)
    db.BeautifulSoup = dx.BeautifulSoup = lambda markup, features=None: dfxp_soup()
    try:
        with StableHash():
            return fn()
    finally:
        db.BeautifulSoup, dx.BeautifulSoup = old


KEYS = ("font-family", "color", "font-size", "text-align")


def _key(i):
    if i == 0:
        return KEYS[0]
    if i == 1:
        return KEYS[1]
    if i == 2:
        return KEYS[2]
    return KEYS[3]


def span_attr_value(cps: list[int], k: int, legacy: bool) -> str:
    """
    pre: _vals(cps, 1, 2) and 0 <= k < 4
    post: _ == ""
    """
    v = text_of(cps)
    nodes = [CaptionNode.create_style(True, {_key(k): v}), CaptionNode.create_text("x"), CaptionNode.create_style(False, {_key(k): v})]
    cap = Caption(0, 1, nodes)
    w = LegacyDFXPWriter() if legacy else DFXPWriter()
    frag = w._recreate_text(cap, dfxp_soup())
    err, attrs = _fragment_ok(frag)
    if err:
        return err
    if len(attrs) != 1:
        return "style attribute lost"
    return "" if _decode(attrs[0][1]) == v else "attribute value changed"


def bs4_attr_value(cps: list[int], k: int, where: int) -> str:
    """
    pre: _vals(cps, 1, 2) and 0 <= k < 4 and 0 <= where < 3
    post: _ == ""
    """
    v = text_of(cps)
    soup = dfxp_soup()
    if where == 0:
        DFXPWriter()._recreate_styling_tag("s1", {_key(k): v}, soup)
        tags = soup.find_all("style")
    elif where == 1:
        LegacyDFXPWriter()._recreate_styling_tag("s1", {_key(k): v}, soup)
        tags = soup.find_all("style")
    else:
        cap = Caption(0, 1, [CaptionNode.create_text("x")], style={_key(k): v})
        tags = [DFXPWriter()._recreate_p_tag(cap, cap.style, soup, CaptionSet({"en": CaptionList([cap])}), "en")]
    found = False
    for t in tags:
        for name, val in t.attrs.items():
            if not isinstance(val, str):
                continue
            if not _attr_value_ok(val, None):
                return "attribute value handed to the serialiser is not well-formed XML"
            if name.startswith("tts:") and _decode(val) == v:
                found = True
    return "" if found else "style attribute lost or changed"


def _collect(soup):
    regions = [r.attrs.get("xml:id") for r in soup.find("layout").find_all("region")]
    refs = []
    divs = soup.find("body").find_all("div")
    ps = soup.find("body").find_all("p")
    for t in divs + ps:
        if "region" in t.attrs:
            refs.append(t.attrs["region"])
    for p in ps:
        s = p.string or ""
        i = 0
        while True:
            i = s.find('region="', i)
            if i < 0:
                break
            j = s.find('"', i + 8)
            refs.append(s[i + 8:j])
            i = j
    return regions, refs, divs, ps


def _integrity(w, set_l, lang_l, cap_l, node_l, two, same, forced, style_name=None, style_props=None):
    cs = build_set(set_l=set_l, lang_l=lang_l, cap_l=cap_l, node_l=node_l, two_langs=two, same_times=same, italics=3, style=1, set_styles=1)
    if style_name is not None:   # rename the document style 's1' (stylesheet entry and the captions' class reference)
        cs.set_styles({style_name: dict(style_props) if style_props is not None else {"color": "red", "font-family": "Arial"}})
        for lang in cs.get_languages():
            for c in cs.get_captions(lang):
                c.style = {"class": style_name}
    holder = []

    def run():
        wr = DFXPWriter() if w == 0 else (SinglePositioningDFXPWriter() if w == 1 else LegacyDFXPWriter())
        orig = dfxp_soup

        def factory(markup, features=None):
            s = orig()
            holder.append(s)
            return s
        db.BeautifulSoup = dx.BeautifulSoup = factory
        return wr.write(cs, force="fr") if forced else wr.write(cs)
    _with_fake(run)
    soup = holder[-1]
    regions, refs, divs, ps = _collect(soup)
    if len(set(regions)) != len(regions):
        return "duplicate region id"
    for r in refs:
        if regions.count(r) != 1:
            return "region reference does not resolve to exactly one definition"
    for r in regions:
        if r not in refs:
            return "a defined region is never referenced"
    langs = ["en", "fr"] if two else ["en"]
    written = ["fr"] if (forced and two) else (langs[-1:] if (forced and w == 2) else langs)
    if [d.attrs.get("xml:lang") for d in divs] != written:
        return "one div per written language"
    n_en = 1 if (same and w != 0) else 2
    want_p = sum((n_en if lang == "en" else 1) for lang in written)
    if len(ps) != want_p:
        return "one p per caption"
    for p in ps:
        if not p.attrs.get("begin") or not p.attrs.get("end"):
            return "p without begin/end"
        err, _ = _fragment_ok(p.string or "")
        if err:
            return "p content: " + err
    styles = [s.attrs.get("xml:id") for s in soup.find("styling").find_all("style")]
    if len(set(styles)) != len(styles):
        return "duplicate style id"
    for p in ps:
        if "style" in p.attrs and styles.count(p.attrs["style"]) != 1:
            return "style reference does not resolve"
    for i in styles:
        if i in regions:
            return "an xml:id is used by a style and by a region (ids are not unique)"
    return ""


def _l3(i, a, b, c):
    if i == 0:
        return a
    if i == 1:
        return b
    return c


def integrity_dfxp(set_l: bool, lang_l: bool, cap_l: int, node_l: int) -> str:
    """
    pre: 0 <= cap_l < 3 and 0 <= node_l < 3
    post: _ == ""
    """
    # layouts: none / relative A / equal-valued copy of A / B / alignment-only (equal to the default region)
    return _integrity(0, 5 if set_l else 0, 3 if lang_l else 0, _l3(cap_l, 0, 1, 5), _l3(node_l, 0, 2, 1), True, False, False)


def integrity_dfxp_full(set_l: bool, lang_l: int, cap_l: int, node_l: int, two: bool) -> str:
    """
    pre: 0 <= lang_l < 3 and 0 <= cap_l < 3 and 0 <= node_l < 3
    post: _ == ""
    """
    return _integrity(0, 5 if set_l else 0, _l3(lang_l, 0, 2, 3), _l3(cap_l, 0, 1, 5), _l3(node_l, 0, 2, 1), two, False, False)


def integrity_options(w: int, two: bool, same: bool, forced: bool, cap_l: bool) -> str:
    """
    pre: 0 <= w < 3
    post: _ == ""
    """
    return _integrity(w, 0, 2, 1 if cap_l else 0, 2, two, same, forced)


def inline_positioning(st: int, lay: int, single: bool, cap_too: bool) -> str:
    """
    pre: 0 <= st < 4 and 0 <= lay < 3
    post: _ == ""
    """
    # write_inline_positioning=True repeats the region's attributes on the element: a positioned span whose own style
    # also carries an alignment must still be a well-formed start tag
    style = {"italics": True} if st == 0 else ({"text-align": "right"} if st == 1 else (
        {"text-align": "center", "italics": True} if st == 2 else {"color": "red"}))
    lk = 1 if lay == 0 else (2 if lay == 1 else 7)
    nodes = [CaptionNode.create_style(True, style, layout_info=layout(lk)), CaptionNode.create_text("x", layout_info=layout(lk)),
             CaptionNode.create_style(False, style, layout_info=layout(lk))]
    cs = CaptionSet({"en": CaptionList([Caption(1000000, 2000000, nodes, style=style if cap_too else {}, layout_info=layout(2) if cap_too else None)])})
    holder = []

    def run():
        wr = (SinglePositioningDFXPWriter if single else DFXPWriter)(write_inline_positioning=True)
        orig = dfxp_soup

        def factory(markup, features=None):
            s = orig()
            holder.append(s)
            return s
        db.BeautifulSoup = dx.BeautifulSoup = factory
        return wr.write(cs)
    _with_fake(run)
    for p in holder[-1].find("body").find_all("p"):
        err, _ = _fragment_ok(p.string or "")
        if err:
            return "p content: " + err
    return ""


def public_inline_positioning(st, lay, single, cap_too):
    from lxml import etree
    style = {"italics": True} if st == 0 else ({"text-align": "right"} if st == 1 else (
        {"text-align": "center", "italics": True} if st == 2 else {"color": "red"}))
    lk = 1 if lay == 0 else (2 if lay == 1 else 7)
    nodes = [CaptionNode.create_style(True, style, layout_info=layout(lk)), CaptionNode.create_text("x", layout_info=layout(lk)),
             CaptionNode.create_style(False, style, layout_info=layout(lk))]
    cs = CaptionSet({"en": CaptionList([Caption(1000000, 2000000, nodes, style=style if cap_too else {}, layout_info=layout(2) if cap_too else None)])})
    out = (SinglePositioningDFXPWriter if single else DFXPWriter)(write_inline_positioning=True).write(cs)
    try:
        etree.fromstring(out.encode("utf-8"))
    except etree.XMLSyntaxError as e:
        return "strict XML parser: " + str(e)[:80]
    return ""


def style_names(k: int, w: int, cap_l: bool) -> str:
    """
    pre: 0 <= k < 4 and 0 <= w < 3
    post: _ == ""
    """
    # document style names that look like the writer's own ids ('p', 'default') or nearly like region ids
    name = "p" if k == 0 else ("default" if k == 1 else ("r" if k == 2 else "bottom0"))
    return _integrity(w, 0, 2, 1 if cap_l else 0, 2, False, False, False, style_name=name)


def p_style_props(k: int, w: int, cap_l: bool) -> str:
    """
    pre: 0 <= k < 4 and 0 <= w < 3
    post: _ == ""
    """
    # a document style 'p' (SAMI's paragraph rule) whose properties DFXP can express (colour), cannot express
    # (underline / bold + lang), or which is empty: a style= reference is written only when the definition is
    props = {"color": "red"} if k == 0 else ({"underline": True} if k == 1 else ({"bold": True, "lang": "en"} if k == 2 else {}))
    return _integrity(w, 0, 2, 1 if cap_l else 0, 2, False, False, False, style_name="p", style_props=props)


def style_named_like_region(k: int, w: int) -> str:
    """
    pre: 0 <= k < 3 and 0 <= w < 3
    post: _ == ""
    """
    # known finding C07-style-id-equals-region-id: a document style called 'bottom', 'r0' or 'r1'
    name = "bottom" if k == 0 else ("r0" if k == 1 else "r1")
    return _integrity(w, 0, 2, 1, 2, False, False, False, style_name=name)


def public_style_named_like_region(k, w):
    import re
    name = "bottom" if k == 0 else ("r0" if k == 1 else "r1")
    cs = build_set(set_l=0, lang_l=2, cap_l=1, node_l=2, italics=3, style=1, set_styles=1)
    cs.set_styles({name: {"color": "red"}})
    for c in cs.get_captions("en"):
        c.style = {"class": name}
    wr = DFXPWriter() if w == 0 else (SinglePositioningDFXPWriter() if w == 1 else LegacyDFXPWriter())
    ids = re.findall(r'xml:id="([^"]*)"', wr.write(cs))
    return "" if len(ids) == len(set(ids)) else "duplicate xml:id in the written document: %r" % sorted(i for i in set(ids) if ids.count(i) > 1)


# --- public API replay for the attribute-value obligations (real bs4 + strict XML parse) -------------------
def _public_value(v, key, legacy=False, where="span"):
    from lxml import etree
    if where == "span":
        nodes = [CaptionNode.create_style(True, {key: v}), CaptionNode.create_text("x"), CaptionNode.create_style(False, {key: v})]
        cs = CaptionSet({"en": CaptionList([Caption(1000000, 2000000, nodes)])})
    elif where == "styling":
        cs = CaptionSet({"en": CaptionList([Caption(1000000, 2000000, [CaptionNode.create_text("x")], style={"class": "s1"})])}, styles={"s1": {key: v}})
    else:
        cs = CaptionSet({"en": CaptionList([Caption(1000000, 2000000, [CaptionNode.create_text("x")], style={key: v})])})
    out = (LegacyDFXPWriter() if legacy else DFXPWriter()).write(cs)
    try:
        etree.fromstring(out.encode("utf-8"))
    except etree.XMLSyntaxError as e:
        return f"style value {v!r}: output is not well-formed XML ({e})"
    return ""


def public_span_attr_value(cps, k, legacy):
    return _public_value(text_of(cps), KEYS[k], legacy, "span")


def public_bs4_attr_value(cps, k, where):
    return _public_value(text_of(cps), KEYS[k], where == 1, "styling" if where < 2 else "p")


# --- class names (style ids) and language codes are arbitrary text as well ------------------------------------------
def id_lang_value(cps: list[int], where: int, legacy: bool) -> str:
    """
    pre: _vals(cps, 1, 2) and 0 <= where <= 1 and all(c != 38 and c != 60 for c in cps)
    post: _ == ""
    """
    # '&' and '<' in a class name / language code: known finding C07-id-lang-unescaped (see id_lang_amp_lt)
    return _id_lang(cps, where, legacy)


def id_lang_amp_lt(amp: bool, where: int, legacy: bool) -> str:
    """
    pre: 0 <= where <= 1
    post: _ == ""
    """
    return _id_lang([38 if amp else 60], where, legacy)


def _id_lang(cps, where, legacy):
    v = "k" + text_of(cps)
    if v.strip() != v or " " in v:
        return ""  # a style attribute is a space separated list of ids: ids with blanks are not expressible
    if where == 0:
        cs = CaptionSet({"en": CaptionList([Caption(1000000, 2000000, [CaptionNode.create_text("x")], style={"class": v})])},
                        styles={v: {"color": "red"}})
    else:
        cs = CaptionSet({v: CaptionList([Caption(1000000, 2000000, [CaptionNode.create_text("x")])])})
    holder = []

    def run():
        orig = dfxp_soup

        def factory(markup, features=None):
            s = orig()
            holder.append(s)
            return s
        db.BeautifulSoup = dx.BeautifulSoup = factory
        return (LegacyDFXPWriter() if legacy else DFXPWriter()).write(cs)
    _with_fake(run)
    soup = holder[-1]
    tags = soup.find_all("style") + soup.find_all("p") + soup.find_all("div") + soup.find_all("tt")
    for t in tags:
        for name, val in t.attrs.items():
            if isinstance(val, str) and not _attr_value_ok(val, None):
                return "attribute value handed to the serialiser is not well-formed XML (" + name + ")"
    if where == 0:
        ids = [_decode(s.attrs.get("xml:id")) for s in soup.find_all("style")]
        ref = soup.find_all("p")[0].attrs.get("style")
        if ref is None or ids.count(_decode(ref)) != 1 or _decode(ref) != v:
            return "style reference does not resolve to the class"
    else:
        langs = [d.attrs.get("xml:lang") for d in soup.find_all("div")]
        if len(langs) != 1 or _decode(langs[0]) != v:
            return "language code changed"
    return ""


def public_id_lang_amp_lt(amp, where, legacy):
    return public_id_lang_value([38 if amp else 60], where, legacy)


def public_id_lang_value(cps, where, legacy):
    from lxml import etree
    v = "k" + text_of(cps)
    if where == 0:
        cs = CaptionSet({"en": CaptionList([Caption(1000000, 2000000, [CaptionNode.create_text("x")], style={"class": v})])},
                        styles={v: {"color": "red"}})
    else:
        cs = CaptionSet({v: CaptionList([Caption(1000000, 2000000, [CaptionNode.create_text("x")])])})
    out = (LegacyDFXPWriter() if legacy else DFXPWriter()).write(cs)
    try:
        etree.fromstring(out.encode("utf-8"))
    except etree.XMLSyntaxError as e:
        return f"{'class name' if where == 0 else 'language code'} {v!r}: output is not well-formed XML ({e})"
    return ""


# --- characters in text: the fragment placed inside <p> is well-formed XML character data -------------------------
def _text_fragment(s, w):
    from harness.ref_text import decode_entities, XML_ENT
    wr = DFXPWriter() if w == 0 else (LegacyDFXPWriter() if w == 1 else SinglePositioningDFXPWriter())
    frag = wr._recreate_text(Caption(0, 1000000, [CaptionNode.create_text(s)]), None)
    ok, _dec = decode_entities(frag, XML_ENT)
    return "" if ok else "text is not well-formed XML character data (undeclared entity / bare & or <)"


def text_chars(cps: list[int], w: int) -> str:
    """
    pre: printable(cps, 1, 3) and visible(text_of(cps)) and 0 <= w <= 2
    post: _ == ""
    """
    return _text_fragment(text_of(cps), w)


def text_amp(cps: list[int], w: int) -> str:
    """
    pre: printable(cps, 3, 3) and 0 <= w <= 2
    post: _ == ""
    """
    return _text_fragment(text_of([38] + cps), w)


def public_text_amp(cps, w):
    from lxml import etree
    s = text_of([38] + cps)
    wr = DFXPWriter() if w == 0 else (LegacyDFXPWriter() if w == 1 else SinglePositioningDFXPWriter())
    out = wr.write(CaptionSet({"en": CaptionList([Caption(0, 1000000, [CaptionNode.create_text(s)])])}))
    try:
        etree.fromstring(out.encode("utf-8"))
    except etree.XMLSyntaxError as e:
        return "strict XML parser: " + str(e)[:80]
    return ""


# --- balanced style nodes, nested or not: span markup stays balanced -----------------------------------------------
def nested_spans(kinds: list[int], w: int) -> str:
    """
    pre: len(kinds) == 6 and all(0 <= k <= 3 for k in kinds) and 0 <= w <= 2
    post: _ == ""
    """
    # kinds: 0 TEXT, 1 START italics, 2 START {'color': 'red'}, 3 END of the innermost open span; nesting depth <= 2
    nodes = []
    stack = []
    ntext = 0
    for idx, k in enumerate(kinds):
        if k == 0:
            nodes.append(CaptionNode.create_text("w" + "abcdef"[idx]))
            ntext += 1
        elif k == 3:
            if not stack:
                return ""
            nodes.append(CaptionNode.create_style(False, stack.pop()))
        else:
            if len(stack) >= 2:
                return ""
            st = {"italics": True} if k == 1 else {"color": "red"}
            stack.append(st)
            nodes.append(CaptionNode.create_style(True, st))
    if stack or ntext == 0:
        return ""
    wr = DFXPWriter() if w == 0 else (LegacyDFXPWriter() if w == 1 else SinglePositioningDFXPWriter())
    frag = wr._recreate_text(Caption(0, 1000000, nodes), dfxp_soup())
    err, _ = _fragment_ok(frag)
    if err:
        return err
    if wr.open_span:
        return "writer left a span open"
    return ""
