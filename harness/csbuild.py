"""Selector-built caption sets and structural snapshots shared by the C07/C09/C10/C11/C12/C14 harnesses."""
from pycaption.base import Caption, CaptionNode, CaptionSet, CaptionList
from pycaption.geometry import Size, Point, Stretch, Padding, Layout, Alignment, UnitEnum
from pycaption.geometry import HorizontalAlignmentEnum as H, VerticalAlignmentEnum as V

P = UnitEnum.PERCENT
PX = UnitEnum.PIXEL


def layout(kind):
    """0 None; 1 relative layout A; 2 relative layout B (equal-valued copy of A is kind 3); 4 absolute (px); 5 alignment only; 6 A + default alignment spelled out; 7 A + right/top"""
    if kind == 0:
        return None
    if kind == 1:
        return Layout(origin=Point(Size(10, P), Size(10, P)), extent=Stretch(Size(30, P), Size(20, P)))
    if kind == 2:
        return Layout(origin=Point(Size(40, P), Size(50, P)), extent=Stretch(Size(30, P), Size(20, P)),
                      padding=Padding(Size(1, P), Size(2, P), Size(3, P), Size(4, P)), alignment=Alignment(H.CENTER, V.TOP))
    if kind == 3:
        return Layout(origin=Point(Size(10, P), Size(10, P)), extent=Stretch(Size(30, P), Size(20, P)))
    if kind == 6:  # A's box with the DFXP default alignment spelled out (unequal to A, same region attributes)
        return Layout(origin=Point(Size(10, P), Size(10, P)), extent=Stretch(Size(30, P), Size(20, P)), alignment=Alignment(H.START, V.BOTTOM))
    if kind == 7:  # A's box with another alignment
        return Layout(origin=Point(Size(10, P), Size(10, P)), extent=Stretch(Size(30, P), Size(20, P)), alignment=Alignment(H.RIGHT, V.TOP))
    if kind == 4:
        return Layout(origin=Point(Size(64, PX), Size(36, PX)), extent=Stretch(Size(320, PX), Size(72, PX)))
    return Layout(alignment=Alignment(H.RIGHT, V.BOTTOM))


def snap_layout(lay):
    if lay is None:
        return None
    return (lay.serialized(), lay.webvtt_positioning)


def snap_node(n):
    c = n.content
    if isinstance(c, dict):
        c = tuple(sorted((k, tuple(v) if isinstance(v, list) else v) for k, v in c.items()))
    return (n.type_, c, n.start, snap_layout(n.layout_info))


def snap_caption(c):
    st = c.style
    st = tuple(sorted((k, tuple(v) if isinstance(v, list) else v) for k, v in st.items())) if isinstance(st, dict) else st
    return (c.start, c.end, tuple(snap_node(n) for n in c.nodes), st, snap_layout(c.layout_info))


def snap_set(cs):
    langs = []
    for lang in cs.get_languages():
        caps = cs.get_captions(lang)
        langs.append((lang, snap_layout(getattr(caps, "layout_info", None)), tuple(snap_caption(c) for c in caps)))
    styles = tuple((k, tuple(sorted(v.items())) if isinstance(v, dict) else v) for k, v in cs.get_styles())
    return (tuple(langs), styles, snap_layout(cs.layout_info))


def build_set(set_l=0, lang_l=0, cap_l=0, node_l=0, style=0, two_langs=False, same_times=False, italics=0, set_styles=0, node_l2=None):
    """style: 0 none, 1 {'class': 's1'}, 2 {'text-align': 'right', 'italics': True}
    italics: 0 none, 1 balanced span, 2 unclosed span (start only)
    set_styles: 0 none, 1 {'s1': {...}}, 2 with a 'text-align' key"""
    def cap(start, end, text):
        nodes = []
        l2 = node_l if node_l2 is None else node_l2
        if italics:
            nodes.append(CaptionNode.create_style(True, {"italics": True}, layout_info=layout(node_l) if italics == 3 else None))
        nodes.append(CaptionNode.create_text(text, layout_info=layout(node_l)))
        if italics in (1, 3):
            nodes.append(CaptionNode.create_style(False, {"italics": True}, layout_info=layout(node_l) if italics == 3 else None))
        nodes.append(CaptionNode.create_break(layout_info=layout(l2)))
        if italics == 3:  # a second positioned span (as the DFXP reader produces for <span region=...>)
            nodes.append(CaptionNode.create_style(True, {"italics": True}, layout_info=layout(l2)))
        nodes.append(CaptionNode.create_text(text + "2", layout_info=layout(l2)))
        if italics == 3:
            nodes.append(CaptionNode.create_style(False, {"italics": True}, layout_info=layout(l2)))
        st = {} if style == 0 else ({"class": "s1"} if style == 1 else {"text-align": "right", "italics": True})
        return Caption(start, end, nodes, style=st, layout_info=layout(cap_l))
    c1 = cap(1000000, 2000000, "one")
    c2 = cap(1000000, 2000000, "two") if same_times else cap(3000000, 4500000, "two")
    d = {"en": CaptionList([c1, c2], layout_info=layout(lang_l))}
    if two_langs:
        d["fr"] = CaptionList([cap(1000000, 2000000, "un")], layout_info=layout(lang_l))
    styles = {}
    if set_styles >= 1:
        styles["s1"] = {"color": "red", "font-family": "Arial"}
    if set_styles == 2:
        styles["s2"] = {"text-align": "center"}
    if set_styles == 3:  # the same class name with other rules (another document's stylesheet)
        styles["s1"] = {"italics": True, "bold": True}
    return CaptionSet(d, styles=styles, layout_info=layout(set_l))


# CrossHair models the builtin hash() as an arbitrary (symbolic) function; the geometry classes build
# their __hash__ from hash() of their parts, which makes every dict lookup keyed by a Layout fork on
# unknown integers.  Harnesses that are not about hashing replace the name `hash` inside
# pycaption.geometry by this deterministic function of the value (contract: hash is a function of the
# value within one process; equality/hash consistency itself is decided in C18 by E4).
import enum as _enum
import pycaption.geometry as _g


def stable_hash(x):
    if x is None:
        return 1
    if isinstance(x, _enum.Enum):
        return 3 + list(type(x)).index(x)
    if isinstance(x, bool):
        return 7 if x else 5
    if isinstance(x, (int, float)):
        return int(x * 1000) % 1000003
    if isinstance(x, str):
        v = 11
        for ch in x:
            v = (v * 31 + ord(ch)) % 1000003
        return v
    h = type(x).__hash__
    if h is object.__hash__ or h is None:
        return id(x)
    return h(x)


class StableHash:
    def __enter__(self):
        _g.hash = stable_hash

    def __exit__(self, *a):
        del _g.hash


def mutable_ids(obj, seen=None):
    """ids of all mutable objects reachable from a caption set (for "no shared mutable state" checks)"""
    import enum
    if seen is None:
        seen = {}
    if obj is None or isinstance(obj, (str, int, float, bool, bytes, enum.Enum, type)):
        return seen
    if id(obj) in seen:
        return seen
    if isinstance(obj, tuple):
        for x in obj:
            mutable_ids(x, seen)
        return seen
    seen[id(obj)] = type(obj).__name__
    if isinstance(obj, dict):
        for k, v in obj.items():
            mutable_ids(v, seen)
    elif isinstance(obj, (list, set)):
        for x in obj:
            mutable_ids(x, seen)
    else:
        d = getattr(obj, "__dict__", None)
        if isinstance(d, dict):
            for v in d.values():
                mutable_ids(v, seen)
    return seen
