"""Hash-seed independence as a solver question.

Python promises nothing about the iteration order of a set, and with string hash randomisation the order
really changes from process to process.  `nondet_module(mod)` re-executes a module's source with every set
display, set comprehension and set(...) call replaced by NondetSet, a set whose iteration order is a
permutation chosen by (symbolic) integers.  Running the rewritten code twice with two independent choices
and asserting equal results is the self-composition form of "the output does not depend on the hash seed".
The rewrite is regenerated from /repo's current source on every run.
"""
import ast
import inspect
import sys
import types

PICKS = [[]]  # current pick vector (list of ints, possibly symbolic); consumed by every iteration


class NondetSet:
    def __init__(self, items=()):
        self.items = []
        for x in items:
            self.add(x)

    def add(self, x):
        if x not in self.items:
            self.items.append(x)

    def update(self, other):
        for x in other:
            self.add(x)

    def discard(self, x):
        if x in self.items:
            self.items.remove(x)

    def remove(self, x):
        self.items.remove(x)

    def __contains__(self, x):
        return x in self.items

    def __len__(self):
        return len(self.items)

    def __bool__(self):
        return len(self.items) > 0

    def _order(self):
        rest = list(self.items)
        out = []
        picks = PICKS[0]
        k = 0
        while rest:
            i = picks[k] if k < len(picks) else 0
            k += 1
            if not (0 <= i < len(rest)):
                i = 0
            out.append(rest.pop(i))
        return out

    def __iter__(self):
        return iter(self._order())

    def pop(self):
        o = self._order()
        self.items.remove(o[0])
        return o[0]

    def __sub__(self, other):
        return NondetSet([x for x in self.items if x not in other])

    def __or__(self, other):
        r = NondetSet(self.items)
        r.update(other)
        return r

    def __and__(self, other):
        return NondetSet([x for x in self.items if x in other])

    def __eq__(self, other):
        try:
            return len(self) == len(other) and all(x in other for x in self.items)
        except TypeError:
            return False

    __hash__ = None


class _Rewrite(ast.NodeTransformer):
    def __init__(self):
        self.count = 0

    def _wrap(self, node, arg):
        self.count += 1
        return ast.copy_location(ast.Call(func=ast.Name(id="NDSET_FACTORY", ctx=ast.Load()), args=[arg], keywords=[]), node)

    def visit_SetComp(self, node):
        self.generic_visit(node)
        return self._wrap(node, ast.ListComp(elt=node.elt, generators=node.generators))

    def visit_Set(self, node):
        self.generic_visit(node)
        return self._wrap(node, ast.List(elts=node.elts, ctx=ast.Load()))

    def visit_Call(self, node):
        self.generic_visit(node)
        if isinstance(node.func, ast.Name) and node.func.id == "set":
            self.count += 1
            return ast.copy_location(ast.Call(func=ast.Name(id="NDSET_FACTORY", ctx=ast.Load()), args=node.args, keywords=[]), node)
        return node


_CACHE = {}


def nondet_module(mod):
    """a copy of module `mod` (fresh classes and functions) in which every set is a NondetSet.
    Returns (namespace module, number of rewritten set sites)."""
    if mod.__name__ in _CACHE:
        return _CACHE[mod.__name__]
    src = inspect.getsource(mod)
    tree = ast.parse(src)
    rw = _Rewrite()
    tree = rw.visit(tree)
    ast.fix_missing_locations(tree)
    code = compile(tree, mod.__file__, "exec")
    new = types.ModuleType(mod.__name__)
    new.__dict__.update({"__file__": mod.__file__, "__package__": mod.__package__, "NDSET_FACTORY": NondetSet,
                         "__builtins__": __builtins__})
    exec(code, new.__dict__)
    _CACHE[mod.__name__] = (new, rw.count)
    return new, rw.count
