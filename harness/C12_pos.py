"""C12 - positioning survives a DFXP round trip and maps faithfully to WebVTT cue settings.

Real code: DFXPWriter.write + RegionCreator on the recording stub of bs4 (serialised verbatim), then the real
DFXPReader.read (LayoutAwareDFXPParser on Python's html.parser, LayoutInfoScraper) on that text;
WebVTTWriter._convert_positioning/_group_cues_by_layout/_convert_caption/write; WebVTTReader timing-line settings.
Oracle: every text keeps its effective layout (first of node / caption / language / set layout, missing alignment
= start/after); WebVTT: position = x + left padding, line = y + top padding, size = width - paddings, align omitted
when centred, nodes with different layouts become cues with the same times, settings read from WebVTT are
written back verbatim.
"""
import warnings
from fractions import Fraction
import pycaption.dfxp.base as db
from pycaption.dfxp import DFXPWriter, DFXPReader
from pycaption import WebVTTWriter, WebVTTReader
from pycaption.base import Caption, CaptionNode, CaptionSet, CaptionList
from pycaption.geometry import Size, Point, Stretch, Padding, Layout, Alignment, UnitEnum
from pycaption.geometry import HorizontalAlignmentEnum as H, VerticalAlignmentEnum as V
from harness.fakesoup import dfxp_soup
from harness.csbuild import build_set, layout, StableHash

warnings.simplefilter("ignore")
DEFAULT_ALIGN = Alignment(H.START, V.BOTTOM)


def _eff(*layouts):
    for lay in layouts:
        if lay:
            return lay
    return None


def _same_layout(got, want):
    if want is None:
        want = Layout(alignment=DEFAULT_ALIGN)
    if got is None:
        return False
    if got.origin != want.origin or got.extent != want.extent or got.padding != want.padding:
        return False
    wa = want.alignment or DEFAULT_ALIGN
    ga = got.alignment or DEFAULT_ALIGN
    return ga.horizontal == (wa.horizontal or H.START) and ga.vertical == (wa.vertical or V.BOTTOM)


def _l3(i, a, b, c):
    if i == 0:
        return a
    if i == 1:
        return b
    return c


def dfxp_roundtrip_l0(cap_l: int, node_a: int, node_b: int) -> str:
    """
    pre: 0 <= cap_l < 3 and 0 <= node_a < 3 and 0 <= node_b < 3
    post: _ == ""
    """
    return _roundtrip(0, cap_l, node_a, node_b)


def dfxp_roundtrip_l1(cap_l: int, node_a: int, node_b: int) -> str:
    """
    pre: 0 <= cap_l < 3 and 0 <= node_a < 3 and 0 <= node_b < 3
    post: _ == ""
    """
    return _roundtrip(1, cap_l, node_a, node_b)


def dfxp_roundtrip_l2(cap_l: int, node_a: int, node_b: int) -> str:
    """
    pre: 0 <= cap_l < 3 and 0 <= node_a < 3 and 0 <= node_b < 3
    post: _ == ""
    """
    return _roundtrip(2, cap_l, node_a, node_b)


def dfxp_roundtrip_same_box(cap_l: int, node_a: int, node_b: int) -> str:
    """
    pre: 0 <= cap_l < 3 and 0 <= node_a < 3 and 0 <= node_b < 3
    post: _ == ""
    """
    # one box, the alignment absent / spelled out as the DFXP default / different: layouts that are unequal
    # although (the first two) serialise to the same region attributes
    return _roundtrip(0, cap_l, node_a, node_b, pools=((0, 0, 0), (1, 6, 7), (0, 1, 6), (0, 6, 7)))


def _roundtrip(lang_l, cap_l, node_a, node_b, pools=((0, 1, 5), (0, 3, 2), (0, 1, 2), (0, 5, 3))):
    set_l = False  # the statement speaks of layouts at language, caption or node level
    # layout kinds: 0 none, 1 A, 2 B (with padding and alignment), 3 equal-valued copy of A, 5 alignment only
    kset, klang, kcap = (2 if set_l else 0), _l3(lang_l, *pools[0]), _l3(cap_l, *pools[1])
    ka, kb = _l3(node_a, *pools[2]), _l3(node_b, *pools[3])
    cs = build_set(set_l=kset, lang_l=klang, cap_l=kcap, node_l=ka, node_l2=kb, italics=3)
    old = db.BeautifulSoup
    holder = []

    def factory(markup, features=None):
        s = dfxp_soup()
        holder.append(s)
        return s
    db.BeautifulSoup = factory
    try:
        with StableHash():
            text = DFXPWriter(relativize=False, fit_to_screen=False).write(cs)
    finally:
        db.BeautifulSoup = old
    with StableHash():
        back = DFXPReader().read(text)
    caps_in = cs.get_captions("en")
    caps_out = back.get_captions("en")
    if len(caps_in) != len(caps_out):
        return "cue count"
    for ci, co in zip(caps_in, caps_out):
        tin = [n for n in ci.nodes if n.type_ == CaptionNode.TEXT]
        tout = [n for n in co.nodes if n.type_ == CaptionNode.TEXT and n.content.strip()]
        if [n.content for n in tin] != [n.content.strip() for n in tout]:
            return "text nodes"
        for ni, no in zip(tin, tout):
            want = _eff(ni.layout_info, ci.layout_info, layout(klang), layout(kset))
            if not _same_layout(no.layout_info, want):
                return "effective layout of a text changed in the round trip"
    return ""


# --- WebVTT cue settings ------------------------------------------------------------------------------------
XS = (Fraction(0), Fraction(10), Fraction(25, 2), Fraction(3333, 100))
PADS = (None, Fraction(3, 4), Fraction(5))   # 0.75: two decimals and below 1 (printed with its leading zero)
WS = (None, Fraction(50), Fraction(6667, 100))


def _pick3(i, t):
    if i == 0:
        return t[0]
    if i == 1:
        return t[1]
    return t[2]


def _pick4(i, t):
    if i == 3:
        return t[3]
    return _pick3(i, t)


def _fmt(fr):
    s = "%.2f" % float(fr)
    s = s.rstrip("0").rstrip(".")
    return s + "%"


def vtt_settings(ix: int, iw: int, ips: int, ipe: int, al: int) -> str:
    """
    pre: 0 <= ix < 4 and 0 <= iw < 3 and 0 <= ips < 3 and 0 <= ipe < 3 and 0 <= al < 4
    post: _ == ""
    """
    iy = (ix + 1) % 4
    ipb = (ips + 2) % 3
    P = UnitEnum.PERCENT
    x, y, w = _pick4(ix, XS), _pick4(iy, XS), _pick3(iw, WS)
    ps, pe, pb = _pick3(ips, PADS), _pick3(ipe, PADS), _pick3(ipb, PADS)
    has_pad = ps is not None or pe is not None or pb is not None

    def sz(fr):
        return Size(float(fr), P)
    pad = Padding(before=sz(pb) if pb is not None else None, after=None, start=sz(ps) if ps is not None else None,
                  end=sz(pe) if pe is not None else None) if has_pad else None
    align = None if al == 0 else Alignment((H.LEFT, H.CENTER, H.RIGHT)[al - 1] if al < 4 else H.LEFT, V.TOP)
    lay = Layout(origin=Point(sz(x), sz(y)), extent=Stretch(sz(w), sz(Fraction(20))) if w is not None else None, padding=pad, alignment=align)
    got = WebVTTWriter(fit_to_screen=False)._convert_positioning(lay)
    want = ""
    if al == 0:
        want += " align:start"
    elif al == 1:
        want += " align:left"
    elif al == 3:
        want += " align:right"
    want += " position:" + _fmt(x + (ps or 0))
    want += " line:" + _fmt(y + (pb or 0))
    if w is not None:
        want += " size:" + _fmt(w - (ps or 0) - (pe or 0))
    return "" if got == want else "cue settings"


def vtt_settings_fit(ix: int, iw: int, ips: int, rel: bool) -> str:
    """
    pre: 0 <= ix < 4 and 0 <= iw < 3 and 0 <= ips < 3
    post: _ == ""
    """
    # fit_to_screen=True with relativize on or off (percent layouts need no relativization): a missing width reaches
    # the 90% edge, a width that overflows it is cut back to it, one that fits is unchanged; then the padding arithmetic
    P = UnitEnum.PERCENT
    x, y, w = _pick4(ix, XS), Fraction(20), _pick3(iw, WS)
    ps = _pick3(ips, PADS)

    def sz(fr):
        return Size(float(fr), P)
    pad = Padding(start=sz(ps)) if ps is not None else None
    lay = Layout(origin=Point(sz(x), sz(y)), extent=Stretch(sz(w), sz(Fraction(20))) if w is not None else None, padding=pad)
    got = WebVTTWriter(relativize=rel, fit_to_screen=True)._convert_positioning(lay)
    width = w if (w is not None and x + w <= 90) else 90 - x
    want = " align:start position:" + _fmt(x + (ps or 0)) + " line:" + _fmt(y) + " size:" + _fmt(width - (ps or 0))
    return "" if got == want else "cue settings with fit_to_screen"


def vtt_shared_layout(level: int, ips: int, ipb: int, three: bool) -> str:
    """
    pre: 0 <= level < 3 and 0 <= ips < 3 and 0 <= ipb < 3
    post: _ == ""
    """
    # several cues resolving to ONE Layout object (language level, the same instance on every caption, or on
    # every node): each cue must carry the settings of that layout, whatever was written before it
    P = UnitEnum.PERCENT
    ps, pb = _pick3(ips, PADS), _pick3(ipb, PADS)

    def sz(fr):
        return Size(float(fr), P)
    pad = Padding(before=sz(pb) if pb is not None else None, start=sz(ps) if ps is not None else None,
                  end=sz(Fraction(5, 2))) if (ps is not None or pb is not None) else None
    shared = Layout(origin=Point(sz(10), sz(20)), extent=Stretch(sz(60), sz(20)), padding=pad)
    caps = []
    for i in range(3 if three else 2):
        node_l = shared if level == 2 else None
        caps.append(Caption(i * 1000000, i * 1000000 + 500000, [CaptionNode.create_text("t%d" % i, layout_info=node_l)],
                            layout_info=shared if level == 1 else None))
    cs = CaptionSet({"en": CaptionList(caps, layout_info=shared if level == 0 else None)})
    out = WebVTTWriter(fit_to_screen=False).write(cs)
    want = " align:start position:" + _fmt(10 + (ps or 0)) + " line:" + _fmt(20 + (pb or 0)) + \
        " size:" + _fmt(60 - (ps or 0) - (Fraction(5, 2) if pad is not None else 0))
    timings = [ln for ln in out.split("\n") if "-->" in ln]
    if len(timings) != len(caps):
        return "number of cues"
    for ln in timings:
        if ln[len("00:00.000 --> 00:00.500"):] != want:
            return "cue settings of a cue sharing its layout with an earlier cue"
    if shared.origin.x.value != 10.0 or shared.extent.horizontal.value != 60.0:
        return "the caption set's layout was modified by writing"
    return ""


def vtt_split_and_passthrough(la: int, lb: int, lc: int) -> str:
    """
    pre: 0 <= la < 3 and 0 <= lb < 3 and 0 <= lc < 3
    post: _ == ""
    """
    raw = False
    # three text nodes with layouts out of {none, A, B}: consecutive nodes with different layouts become separate
    # cues with the same times; a raw WebVTT setting string (read from a file) is written back verbatim
    def lay(k):
        if raw:
            return None if k == 0 else Layout(webvtt_positioning=("line:10% align:left" if k == 1 else "position:70% size:20%"))
        return layout(_l3(k, 0, 1, 2))
    nodes = [CaptionNode.create_text("one", layout_info=lay(la)), CaptionNode.create_break(layout_info=lay(la)),
             CaptionNode.create_text("two", layout_info=lay(lb)), CaptionNode.create_break(layout_info=lay(lb)),
             CaptionNode.create_text("three", layout_info=lay(lc))]
    cs = CaptionSet({"en": CaptionList([Caption(1000000, 2000000, nodes)])})
    out = WebVTTWriter(fit_to_screen=False).write(cs)
    w = WebVTTWriter(fit_to_screen=False)
    cues = []
    for block in out[len("WEBVTT\n\n"):].split("\n\n"):
        lines = [ln for ln in block.split("\n") if ln != ""]
        i = 0
        while i < len(lines):
            if "-->" in lines[i]:
                j = i + 1
                txt = []
                while j < len(lines) and "-->" not in lines[j]:
                    txt.append(lines[j])
                    j += 1
                cues.append((lines[i], txt))
                i = j
            else:
                i += 1
    # expected grouping
    groups = []
    for text, k in (("one", la), ("two", lb), ("three", lc)):
        if groups and (groups[-1][1] == k or groups[-1][1] == 0 and False):
            groups[-1][0].append(text)
        else:
            groups.append(([text], k))
    # the writer only splits when the previous group had a layout (a layout-less run joins the next group)
    merged = []
    for texts, k in groups:
        if merged and merged[-1][1] == 0:
            merged[-1] = (merged[-1][0] + texts, k)
        else:
            merged.append((texts, k))
    if len(cues) != len(merged):
        return "number of cues"
    for (timing, txt), (texts, k) in zip(cues, merged):
        if not timing.startswith("00:01.000 --> 00:02.000"):
            return "cue times"
        settings = timing[len("00:01.000 --> 00:02.000"):]
        want = w._convert_positioning(lay(k)) if k else ""
        if raw and k:
            want = " " + lay(k).webvtt_positioning
        if settings != want:
            return "cue settings of a group"
        if [t for t in txt if t.strip() and t != "&nbsp;"] != texts:
            return "cue text"
    return ""


def vtt_read_settings_verbatim(k: int) -> str:
    """
    pre: 0 <= k < 4
    post: _ == ""
    """
    settings = ("", "align:left", "position:10%,line-left line:5% size:35%", "vertical:rl  line:0")[k] if False else (
        "" if k == 0 else "align:left" if k == 1 else "position:10%,line-left line:5% size:35%" if k == 2 else "vertical:rl line:0")
    doc = "WEBVTT\n\n00:01.000 --> 00:02.000" + (" " + settings if settings else "") + "\nfoo\n"
    cs = WebVTTReader().read(doc)
    out = WebVTTWriter().write(cs)
    line = out.split("\n")[2]
    return "" if line == "00:01.000 --> 00:02.000" + (" " + settings if settings else "") else "settings not written back verbatim"
