"""C02 - whole SRTWriter.write / WebVTTWriter.write / MicroDVDWriter.write with symbolic instants.

The public write() is executed on caption sets whose start/end are symbolic ints (text concrete);
the output must equal, character for character, the document a reference formatter (written here
from the format specifications with plain integer arithmetic) produces: one cue per caption in order,
fields = instant truncated to ms (frames for MicroDVD), SRT merging neighbours with identical
(start, end).  MicroDVD's float expression is replaced in this harness by its contract
us*25 // 10^6, which smt/C02_fp.py proves equal to the real _microtoframes for all us < 24 h.
"""
from pycaption import SRTWriter, WebVTTWriter, MicroDVDWriter
from pycaption.base import Caption, CaptionNode, CaptionSet, CaptionList

DAY = 86400000000
HOUR = 3600000000


def _d2(x):
    return chr(48 + x // 10 % 10) + chr(48 + x % 10)


def _d3(x):
    return chr(48 + x // 100 % 10) + chr(48 + x // 10 % 10) + chr(48 + x % 10)


def ref_hms(us, sep):
    return _d2(us // HOUR) + ":" + _d2(us // 60000000 % 60) + ":" + _d2(us // 1000000 % 60) + sep + _d3(us // 1000 % 1000)


def ref_vtt(us):
    s = _d2(us // 60000000 % 60) + ":" + _d2(us // 1000000 % 60) + "." + _d3(us // 1000 % 1000)
    if us >= HOUR:
        s = _d2(us // HOUR) + ":" + s
    return s


def _cs(times, texts):
    caps = [Caption(times[2 * i], times[2 * i + 1], [CaptionNode.create_text(texts[i])]) for i in range(len(texts))]
    return CaptionSet({"en-US": CaptionList(caps)})


def _srt_exp(t):
    a0, b0, a1, b1, a2, b2 = t
    if a0 == a1 and b0 == b1:
        return ("1\n" + ref_hms(a0, ",") + " --> " + ref_hms(b0, ",") + "\nfoo \nbar\n\n"
                + "2\n" + ref_hms(a2, ",") + " --> " + ref_hms(b2, ",") + "\nbaz\n")
    return ("1\n" + ref_hms(a0, ",") + " --> " + ref_hms(b0, ",") + "\nfoo\n\n"
            + "2\n" + ref_hms(a1, ",") + " --> " + ref_hms(b1, ",") + "\nbar\n\n"
            + "3\n" + ref_hms(a2, ",") + " --> " + ref_hms(b2, ",") + "\nbaz\n")


def _srt(t):
    out = SRTWriter().write(_cs(t, ["foo", "bar", "baz"]))
    return "" if out == _srt_exp(t) else "document"


def srt_write_a0(x: int) -> str:
    """
    pre: 0 <= x <= 5000000
    post: _ == ""
    """
    # cue 1 start symbolic; cue 2 is (2 s, 5 s): equal times => the two cues are merged
    return _srt([x, 5000000, 2000000, 5000000, 86399998000, 86399999999])


def srt_write_b1(x: int) -> str:
    """
    pre: 3723004000 <= x < 86400000000
    post: _ == ""
    """
    return _srt([1000000, 2500000, 3723004000, x, 86399998000, 86399999999])


def srt_write_a2(x: int) -> str:
    """
    pre: 0 <= x <= 86399999999
    post: _ == ""
    """
    return _srt([0, 0, 0, 999, x, 86399999999])


def _vtt(t):
    out = WebVTTWriter().write(_cs(t, ["foo", "bar"]))
    exp = ("WEBVTT\n\n" + ref_vtt(t[0]) + " --> " + ref_vtt(t[1]) + "\nfoo\n\n"
           + ref_vtt(t[2]) + " --> " + ref_vtt(t[3]) + "\nbar\n")
    return "" if out == exp else "document"


def vtt_write_a0(x: int) -> str:
    """
    pre: 0 <= x <= 7200000000
    post: _ == ""
    """
    return _vtt([x, 7200000000, 7200000000, 86399999999])


def vtt_write_b1_long(x: int) -> str:
    """
    pre: 3600000000 <= x < 7200000000
    post: _ == ""
    """
    return _vtt([0, 999, 1000, x])


def vtt_write_b1_short(x: int) -> str:
    """
    pre: 1000 <= x < 3600000000
    post: _ == ""
    """
    return _vtt([0, 999, 1000, x])


def _dec(n):
    """decimal numeral of n >= 0 (n < 10^8)"""
    s = chr(48 + n % 10)
    lim = 10
    while n >= lim:
        s = chr(48 + n // lim % 10) + s
        lim *= 10
    return s


def mdvd_write1(a0: int, b0: int) -> str:
    """
    pre: 0 <= a0 <= b0 < 86400000000
    post: _ == ""
    """
    w = MicroDVDWriter()
    w._microtoframes = lambda micro, fps=25.0: micro * 25 // 1000000  # contract, proved by E2
    out = w.write(_cs([a0, b0, 40000, 80000], ["foo", "bar"]))
    exp = "{" + _dec(a0 * 25 // 1000000) + "}{" + _dec(b0 * 25 // 1000000) + "}foo\n{1}{2}bar\n"
    return "" if out == exp else "document"


# --- DFXP writers: begin/end attributes of the p element (bs4 replaced by its contract stub) ----
def _dfxp_p(writer, a, b, legacy):
    from harness.fakesoup import dfxp_soup
    soup = dfxp_soup()
    cap = Caption(a, b, [CaptionNode.create_text("foo")])
    if legacy:
        p = writer._recreate_p_tag(cap, {"class": "default"}, soup)
    else:
        p = writer._recreate_p_tag(cap, {"class": "default"}, soup, CaptionSet({"en": CaptionList([cap])}), "en")
    if p.name != "p":
        return "tag"
    if p.attrs.get("begin") != ref_hms(a, "."):
        return "begin"
    if p.attrs.get("end") != ref_hms(b, "."):
        return "end"
    return ""


def dfxp_p_begin(x: int) -> str:
    """
    pre: 0 <= x < 86400000000
    post: _ == ""
    """
    from pycaption.dfxp import DFXPWriter
    return _dfxp_p(DFXPWriter(), x, 86399999999, False)


def dfxp_p_end(x: int) -> str:
    """
    pre: 0 <= x < 86400000000
    post: _ == ""
    """
    from pycaption.dfxp import DFXPWriter
    return _dfxp_p(DFXPWriter(), 0, x, False)


def legacy_p_begin_end(x: int, which: bool) -> str:
    """
    pre: 0 <= x < 86400000000
    post: _ == ""
    """
    from pycaption.dfxp.extras import LegacyDFXPWriter
    return _dfxp_p(LegacyDFXPWriter(), x if which else 0, 86399999999 if which else x, True)


# --- DFXP writers, whole write(): one p per caption in order; only CONSECUTIVE captions with identical times may merge ---
def dfxp_cue_structure(w: int, k0: bool, k1: bool, k2: bool, k3: bool, prewrite: bool) -> str:
    """
    pre: 0 <= w <= 2
    post: _ == ""
    """
    # prewrite: the same caption set has been written once before by the single-position writer (which merges
    # concurrent captions - in its own copy): the cues of this write are still one per caption of the set
    import pycaption.dfxp.base as db
    import pycaption.dfxp.extras as dx
    from pycaption.dfxp import DFXPWriter
    from pycaption.dfxp.extras import LegacyDFXPWriter, SinglePositioningDFXPWriter
    from harness.fakesoup import dfxp_soup
    from harness.C07_dfxp import _with_fake
    spans = [((1000000, 3000000) if k else (1000000, 2000000)) for k in (k0, k1, k2, k3)]
    caps = [Caption(a, b, [CaptionNode.create_text("t%d" % i)]) for i, (a, b) in enumerate(spans)]
    cs = CaptionSet({"en": CaptionList(caps)})
    holder = []

    def run():
        wr = DFXPWriter() if w == 0 else (SinglePositioningDFXPWriter() if w == 1 else LegacyDFXPWriter())

        def factory(markup, features=None):
            s = dfxp_soup()
            holder.append(s)
            return s
        db.BeautifulSoup = dx.BeautifulSoup = factory
        if prewrite:
            SinglePositioningDFXPWriter().write(cs)
        return wr.write(cs)
    _with_fake(run)
    ps = holder[-1].find("body").find_all("p")
    got = [(p.attrs.get("begin"), p.attrs.get("end")) for p in ps]
    want = []
    for i, (a, b) in enumerate(spans):
        cue = (ref_hms(a, "."), ref_hms(b, "."))
        if w != 0 and want and want[-1] == cue and spans[i - 1] == (a, b):
            continue   # merged into the preceding cue (identical consecutive timespan)
        want.append(cue)
    if got != want:
        return "cues written: one per caption in order (only consecutive captions with identical times may share a cue)"
    # every caption's text is in the cue written at its position
    j = -1
    for i, (a, b) in enumerate(spans):
        if not (w != 0 and i > 0 and spans[i - 1] == (a, b)):
            j += 1
        if ("t%d" % i) not in (ps[j].string or ""):
            return "a caption's text is not in the cue of its own position"
    return ""
