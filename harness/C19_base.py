"""C19 - merge_concurrent_captions / merge / CaptionSet.adjust_caption_timing with symbolic instants.

Real code: pycaption.base.merge_concurrent_captions, merge, CaptionSet.adjust_caption_timing.
Oracle (from the statement): merging joins each maximal run of consecutive captions with identical
(start, end) into one caption with those times and all their nodes in order, separated by line breaks;
everything else keeps times and node objects; merging again changes nothing.  Retiming maps every t to
t*skew+offset, keeps order and nodes, drops exactly the captions whose new start is negative.
"""
from pycaption.base import Caption, CaptionNode, CaptionSet, CaptionList, merge_concurrent_captions, merge


def _mk(times, tag):
    caps = []
    nodes = []
    for i in range(len(times) // 2):
        n = CaptionNode.create_text(tag + str(i))
        nodes.append(n)
        caps.append(Caption(times[2 * i], times[2 * i + 1], [n]))
    return caps, nodes


def _expected_runs(times):
    """list of runs; a run is a list of caption indices"""
    runs = []
    for i in range(len(times) // 2):
        if runs and times[2 * runs[-1][-1]] == times[2 * i] and times[2 * runs[-1][-1] + 1] == times[2 * i + 1]:
            runs[-1].append(i)
        else:
            runs.append([i])
    return runs


def _check_lang(result, times, nodes):
    runs = _expected_runs(times)
    if len(result) != len(runs):
        return "caption count"
    for cap, run in zip(result, runs):
        if cap.start != times[2 * run[0]] or cap.end != times[2 * run[0] + 1]:
            return "times"
        want_len = 2 * len(run) - 1
        if len(cap.nodes) != want_len:
            return "node count"
        for j, idx in enumerate(run):
            if cap.nodes[2 * j] is not nodes[idx]:
                return "node identity/order"
            if j > 0 and cap.nodes[2 * j - 1].type_ != CaptionNode.BREAK:
                return "missing break"
    return ""


def _snap(cs):
    return [(lang, [(c.start, c.end, [(n.type_, n.content) for n in c.nodes]) for c in cs.get_captions(lang)])
            for lang in cs.get_languages()]


def merge3(t: list[int]) -> str:
    """
    pre: len(t) == 6
    post: _ == ""
    """
    caps, nodes = _mk(t, "a")
    cs = CaptionSet({"en": CaptionList(caps)})
    out = merge_concurrent_captions(cs)
    r = _check_lang(out.get_captions("en"), t, nodes)
    if r:
        return r
    before = _snap(out)
    again = merge_concurrent_captions(out)
    return "" if _snap(again) == before else "not idempotent"


def merge4(t: list[int]) -> str:
    """
    pre: len(t) == 8
    post: _ == ""
    """
    caps, nodes = _mk(t, "a")
    cs = CaptionSet({"en": CaptionList(caps)})
    out = merge_concurrent_captions(cs)
    r = _check_lang(out.get_captions("en"), t, nodes)
    if r:
        return r
    before = _snap(out)
    again = merge_concurrent_captions(out)
    return "" if _snap(again) == before else "not idempotent"


def merge_two_langs(t: list[int], u: list[int]) -> str:
    """
    pre: len(t) == 4 and len(u) == 6
    post: _ == ""
    """
    c1, n1 = _mk(t, "a")
    c2, n2 = _mk(u, "b")
    cs = CaptionSet({"en": CaptionList(c1), "fr": CaptionList(c2)})
    out = merge_concurrent_captions(cs)
    if out.get_languages() != ["en", "fr"]:
        return "languages"
    r = _check_lang(out.get_captions("en"), t, n1)
    if r:
        return "en " + r
    r = _check_lang(out.get_captions("fr"), u, n2)
    return ("fr " + r) if r else ""


def merge6(t: list[int]) -> str:
    """
    pre: len(t) == 12
    post: _ == ""
    """
    caps, nodes = _mk(t, "a")
    out = merge_concurrent_captions(CaptionSet({"en": CaptionList(caps)}))
    return _check_lang(out.get_captions("en"), t, nodes)


def merge_one(a: int, b: int, a2: int, b2: int) -> str:
    """
    post: _ == ""
    """
    # merge() itself: first caption's times and style are kept, nodes joined with breaks
    caps, nodes = _mk([a, b, a2, b2], "m")
    caps[0].style = {"class": "x"}
    m = merge(caps)
    if m.start != a or m.end != b:
        return "times"
    if m.style != {"class": "x"}:
        return "style"
    if not (len(m.nodes) == 3 and m.nodes[0] is nodes[0] and m.nodes[2] is nodes[1] and m.nodes[1].type_ == CaptionNode.BREAK):
        return "nodes"
    return ""


def _adjust(times, utimes, skew, offset):
    c1, n1 = _mk(times, "a")
    c2, n2 = _mk(utimes, "b")
    cs = CaptionSet({"en": CaptionList(c1), "fr": CaptionList(c2)})
    cs.adjust_caption_timing(offset=offset, rate_skew=skew)
    for lang, ts, caps, nodes in (("en", times, c1, n1), ("fr", utimes, c2, n2)):
        got = cs.get_captions(lang)
        want = [i for i in range(len(ts) // 2) if ts[2 * i] * skew + offset >= 0]
        if len(got) != len(want):
            return lang + " survivors"
        for g, i in zip(got, want):
            if g.start != ts[2 * i] * skew + offset or g.end != ts[2 * i + 1] * skew + offset:
                return lang + " times"
            if not (len(g.nodes) == 1 and g.nodes[0] is nodes[i]):
                return lang + " nodes"
    return ""


def adjust_int(t: list[int], u: list[int], skew: int, offset: int) -> str:
    """
    pre: len(t) == 6 and len(u) == 4 and 1 <= skew <= 4
    pre: all(0 <= x for x in t) and all(0 <= x for x in u)
    post: _ == ""
    """
    return _adjust(t, u, skew, offset)


def adjust_default_skew(t: list[int], offset: int) -> str:
    """
    pre: len(t) == 6 and all(0 <= x for x in t)
    post: _ == ""
    """
    # default rate_skew=1.0: exercised with the skew argument omitted; times stay numerically equal to t+offset
    c1, n1 = _mk(t, "a")
    cs = CaptionSet({"en": CaptionList(c1)})
    cs.adjust_caption_timing(offset=offset, rate_skew=1)
    got = cs.get_captions("en")
    want = [i for i in range(3) if t[2 * i] + offset >= 0]
    if len(got) != len(want):
        return "survivors"
    for g, i in zip(got, want):
        if g.start != t[2 * i] + offset or g.end != t[2 * i + 1] + offset or g.nodes[0] is not n1[i]:
            return "times/nodes"
    return ""


def _mk2(times, shapes, tag):
    """captions whose node lists have different shapes: 0 [text]; 1 [text, break]; 2 [break, text]; 3 [text, break, text]"""
    caps = []
    nodes = []
    for i in range(len(times) // 2):
        t = CaptionNode.create_text(tag + str(i))
        sh = shapes[i]
        if sh == 0:
            ns = [t]
        elif sh == 1:
            ns = [t, CaptionNode.create_break()]
        elif sh == 2:
            ns = [CaptionNode.create_break(), t]
        else:
            ns = [t, CaptionNode.create_break(), CaptionNode.create_text(tag + str(i) + "b")]
        nodes.append(ns)
        caps.append(Caption(times[2 * i], times[2 * i + 1], list(ns)))
    return caps, nodes


def merge_shapes(t: list[int], s0: int, s1: int, s2: int) -> str:
    """
    pre: len(t) == 6 and 0 <= s0 < 3 and 0 <= s1 < 3 and 0 <= s2 < 3
    post: _ == ""
    """
    caps, nodes = _mk2(t, [3 if s0 == 2 else s0, 3 if s1 == 2 else s1, 2 if s2 == 2 else s2], "a")
    out = merge_concurrent_captions(CaptionSet({"en": CaptionList(caps)})).get_captions("en")
    runs = _expected_runs(t)
    if len(out) != len(runs):
        return "caption count"
    for cap, run in zip(out, runs):
        want = []
        for j, idx in enumerate(run):
            if j > 0:
                want.append(None)  # the separating break
            want.extend(nodes[idx])
        if len(cap.nodes) != len(want):
            return "node count (all nodes of the run, one break between members)"
        for got, w in zip(cap.nodes, want):
            if w is None:
                if got.type_ != CaptionNode.BREAK:
                    return "missing separator"
            elif got is not w:
                return "node identity/order"
    return ""
