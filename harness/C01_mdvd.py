"""C01 - MicroDVD document structure through the public read(): one caption per non-empty cue, in order, blank lines
and a frame-rate header do not produce cues.  (The frame arithmetic over all frame numbers is E2, smt/C01_fp.py.)"""
from pycaption import MicroDVDReader


def mdvd_structure(header: int, k0: int, k1: int, k2: int, crlf: bool) -> str:
    """
    pre: 0 <= header <= 2 and 0 <= k0 <= 2 and 0 <= k1 <= 2 and 0 <= k2 <= 2
    post: _ == ""
    """
    nl = "\r\n" if crlf else "\n"
    fps = 25.0 if header == 0 else (30.0 if header == 1 else 12.5)
    doc = "" if header == 0 else ("{0}{0}30" if header == 1 else "{0}{0}12.5") + nl
    want = []
    for i, k in enumerate((k0, k1, k2)):
        a, b = 100 * (i + 1), 100 * (i + 1) + 50
        if k == 0:
            doc += "{%d}{%d}line%d|second" % (a, b, i) + nl
            want.append((int(a * 1000000 / fps), int(b * 1000000 / fps), "line%d\nsecond" % i))
        elif k == 1:
            doc += "{%d}{%d}" % (a, b) + nl      # a cue without text
        else:
            doc += nl                              # a blank line
    doc += "{900}{950}tail" + nl
    want.append((int(900 * 1000000 / fps), int(950 * 1000000 / fps), "tail"))
    caps = MicroDVDReader().read(doc).get_captions("und")
    if len(caps) != len(want):
        return "one caption per non-empty cue"
    for c, (s, e, t) in zip(caps, want):
        if c.get_text() != t:
            return "order / text"
        if c.start != s or c.end != e:
            return "times"
    return ""
