"""C08 - conversion chains: one hop lemma per format plus the resolution algebra (smt/C08_algebra.py).

Hop lemma for format f:  read_f(write_f(cue)) = (R_f(start), R_f(end), N(text))  with
R_srt = R_vtt = R_dfxp = R_sami = truncation to milliseconds, R_microdvd = truncation to 25 fps frames,
N = whitespace normalisation.  SRT / WebVTT / MicroDVD: the public write() and then the public read() are
executed with a symbolic instant (resp. symbolic text).  DFXP and SAMI: the writer kernel and the reader kernel
are composed through the serialisation contract (the attribute text is handed over verbatim).
Compositions of hops are not executed (four symbolic string round trips do not finish); they follow from the
hop lemmas by the algebra of the resolution maps, for chains of any length.
"""
from pycaption import SRTWriter, SRTReader, WebVTTWriter, WebVTTReader, MicroDVDWriter, MicroDVDReader
from pycaption.base import Caption, CaptionNode, CaptionSet, CaptionList
from pycaption.dfxp import DFXPReader
from harness.ref_text import printable, text_of

DAY = 86400000000


def _cs(times, texts, lang="en-US"):
    return CaptionSet({lang: CaptionList([Caption(times[2 * i], times[2 * i + 1], [CaptionNode.create_text(t)])
                                          for i, t in enumerate(texts)])})


def _dump(cs):
    lang = cs.get_languages()[0]
    return [(c.start, c.end, c.get_text()) for c in cs.get_captions(lang)]


def r_ms(t):
    return t - t % 1000


def r_frame(t):
    return (t * 25 // 1000000) * 40000


def _mdvd_writer():
    w = MicroDVDWriter()
    w._microtoframes = lambda micro, fps=25.0: micro * 25 // 1000000  # contract proved by E2 (C02)
    return w


def _hop(fmt, cs):
    if fmt == 0:
        return SRTReader().read(SRTWriter().write(cs))
    if fmt == 1:
        return WebVTTReader().read(WebVTTWriter().write(cs))
    r = MicroDVDReader()
    r._framestomicro = lambda n, fps=25.0: n * 40000  # contract proved by E2 (C01) for the default rate
    return r.read(_mdvd_writer().write(cs))


def hop_srt(x: int) -> str:
    """
    pre: 0 <= x <= 86399998999
    post: _ == ""
    """
    back = _dump(_hop(0, _cs([x, 86399999000, 86399999500, 86399999999], ["foo", "bar"])))
    return "" if back == [(r_ms(x), 86399999000, "foo"), (86399999000, 86399999000, "bar")] else "hop"


def hop_srt_end(x: int) -> str:
    """
    pre: 1000 <= x < 86400000000
    post: _ == ""
    """
    back = _dump(_hop(0, _cs([0, 999, 1000, x], ["foo", "bar"])))
    return "" if back == [(0, 0, "foo"), (1000, r_ms(x), "bar")] else "hop"


def hop_vtt(x: int) -> str:
    """
    pre: 0 <= x <= 7199999999
    post: _ == ""
    """
    back = _dump(_hop(1, _cs([x, 7200000000, 7200000500, 86399999999], ["foo", "bar"])))
    return "" if back == [(r_ms(x), 7200000000, "foo"), (7200000000, 86399999000, "bar")] else "hop"


def hop_vtt_end(x: int) -> str:
    """
    pre: 1000 <= x < 3600000000
    post: _ == ""
    """
    back = _dump(_hop(1, _cs([0, 999, 1000, x], ["foo", "bar"])))
    return "" if back == [(0, 0, "foo"), (1000, r_ms(x), "bar")] else "hop"


def hop_mdvd_start(x: int) -> str:
    """
    pre: 80000 <= x <= 86399000000
    post: _ == ""
    """
    back = _dump(_hop(2, _cs([40000, 79999, x, 86399999999], ["foo", "bar"], lang="und")))
    return "" if back == [(40000, 40000, "foo"), (r_frame(x), 86399960000, "bar")] else "hop"


def hop_mdvd_end(y: int) -> str:
    """
    pre: 80000 <= y < 86400000000
    post: _ == ""
    """
    back = _dump(_hop(2, _cs([40000, 79999, 80000, y], ["foo", "bar"], lang="und")))
    return "" if back == [(40000, 40000, "foo"), (80000, r_frame(y), "bar")] else "hop"


def hop_dfxp_begin(x: int) -> str:
    """
    pre: 0 <= x < 86400000000
    post: _ == ""
    """
    return _hop_dfxp(x, False)


def hop_dfxp_end(x: int) -> str:
    """
    pre: 0 <= x < 86400000000
    post: _ == ""
    """
    return _hop_dfxp(x, True)


def _hop_dfxp(x, end):
    c = Caption(0 if end else x, x if end else DAY - 1, [CaptionNode.create_text("t")])
    stamp = c.format_end() if end else c.format_start()
    return "" if DFXPReader()._convert_timestamp_to_microseconds(stamp) == r_ms(x) else "hop"


def hop_sami(a0: int, b0: int, a1: int, b1: int) -> str:
    """
    pre: 0 <= a0 <= b0 < a1 <= b1 < 86400000000 and b0 // 1000 < a1 // 1000 and a0 // 1000 < b0 // 1000
    post: _ == ""
    """
    # writer kernel (sync placement on the bs4 stub) -> serialisation contract -> reader kernel (_translate_lang)
    import pycaption.sami as sm
    from pycaption.sami import SAMIWriter
    from harness.fakesoup import sami_soup
    from harness.C01_sami import R as SR, Soup, P as SP, Sync, StartAttr
    w = SAMIWriter()
    w._recreate_text = lambda nodes: nodes[0].content
    soup = sami_soup()
    cs = CaptionSet({"en": CaptionList()})
    for a, b, t in ((a0, b0, "foo"), (a1, b1, "bar")):
        soup = w._recreate_p_tag(Caption(a, b, [CaptionNode.create_text(t)]), soup, "en", "en", cs)
    ps = []
    for sync in soup.body.contents:
        s = Sync(sync.attrs["start"])
        for p in sync.contents:
            ps.append(SP(s, " " if p.string == "&nbsp;" else p.string))
    sm.float = lambda v: v.ms if isinstance(v, StartAttr) else float(v)
    try:
        caps = SR()._translate_lang("en", Soup(ps), None)
    finally:
        del sm.float
    got = [(c.start, c.end, c.get_text()) for c in caps]
    # SAMI: starts and non-final ends to the millisecond; the last cue lasts four seconds
    want = [(r_ms(a0), r_ms(b0), "foo"), (r_ms(a1), r_ms(a1) + 4000000, "bar")]
    return "" if got == want else "hop"


def text_hop(fmt: int, cps: list[int]) -> str:
    """
    pre: 0 <= fmt < 3 and printable(cps, 1, 3)
    post: _ == ""
    """
    s = text_of(cps)
    if s.strip() == "" or (fmt == 2 and "|" in s) or (fmt == 1 and "-->" in s):
        return ""
    if fmt == 1 and ("<" in s or "&" in s):
        return ""  # markup / reference syntax of WebVTT cue text: covered by C03 + C04
    if fmt == 0 and s.strip().isdigit():
        pass
    back = _dump(_hop(fmt, _cs([1000000, 2000000, 3000000, 4000000], [s, "tail"], lang="und" if fmt == 2 else "en-US")))
    if len(back) != 2:
        return "cue count"
    return "" if " ".join(back[0][2].split()) == " ".join(s.split()) and back[1][2] == "tail" else "text"


def text_hop_vtt_amp(cps: list[int]) -> str:
    """
    pre: printable(cps, 3, 3)
    post: _ == ""
    """
    # entity-looking text ('&lt;', '&am', '&#1;') through the WebVTT hop: the writer escapes the '&', the reader
    # must decode exactly one level
    s = text_of([38] + cps)
    if "<" in s or "-->" in s:
        return ""  # tag syntax of WebVTT cue text: C03 + C04
    back = _dump(_hop(1, _cs([1000000, 2000000, 3000000, 4000000], [s, "tail"])))
    if len(back) != 2:
        return "cue count"
    return "" if " ".join(back[0][2].split()) == " ".join(s.split()) and back[1][2] == "tail" else "text"


import pycaption.sami as sm
from pycaption.sami import SAMIWriter, SAMIReader
from harness.C11_styles import SAMI_DOC, _bs_html

ALPHA = ("&", ";", ">", "<", "a", "#", " ")


def _pick7(i):
    if i == 0:
        return ALPHA[0]
    if i == 1:
        return ALPHA[1]
    if i == 2:
        return ALPHA[2]
    if i == 3:
        return ALPHA[3]
    if i == 4:
        return ALPHA[4]
    if i == 5:
        return ALPHA[5]
    return ALPHA[6]


def text_hop_sami2(c0: int, c1: int) -> str:
    """
    pre: 0 <= c0 < 7 and 0 <= c1 < 7
    post: _ == ""
    """
    return _text_hop_sami("x" + _pick7(c0) + _pick7(c1))


def text_hop_sami3(c0: int, c1: int, c2: int) -> str:
    """
    pre: 0 <= c0 < 7 and 0 <= c1 < 7 and 0 <= c2 < 7
    post: _ == ""
    """
    return _text_hop_sami("x" + _pick7(c0) + _pick7(c1) + _pick7(c2))


def _text_hop_sami(s):
    # SAMI hop on the text: real SAMIWriter text path -> real SAMIParser (pure Python) -> real SAMIReader on the
    # html.parser tree builder; the text is 'x' + three characters over the format's metacharacters
    frag = SAMIWriter()._recreate_text([CaptionNode.create_text(s)])
    saved = sm.BeautifulSoup
    sm.BeautifulSoup = _bs_html
    try:
        caps = SAMIReader().read(SAMI_DOC % frag).get_captions("en-US")
    finally:
        sm.BeautifulSoup = saved
    if len(caps) != 1:
        return "cue count"
    return "" if " ".join(caps[0].get_text().split()) == " ".join(s.split()) else "text"


# --- executed two-hop chains on cue structure (concrete times; the shape of the cue is the symbolic choice) ---------
def _norm_lines(text):
    out = []
    for ln in text.replace(" ", " ").split("\n"):
        ln = " ".join(ln.split())
        if ln:
            out.append(ln)
    return out


def struct_chain(f1: int, f2: int, shape: int) -> str:
    """
    pre: 0 <= f1 < 3 and 0 <= f2 < 3 and 0 <= shape < 5
    post: _ == ""
    """
    # cue shapes: 0 two lines; 1 an empty line between two lines (two consecutive breaks); 2 a whitespace-only text
    # between two breaks; 3 three lines; 4 trailing break.  Chain: format f1, then f2, then both once more.
    T, B = CaptionNode.create_text, CaptionNode.create_break
    if shape == 0:
        nodes = [T("one"), B(), T("two")]
    elif shape == 1:
        nodes = [T("one"), B(), B(), T("two")]
    elif shape == 2:
        nodes = [T("one"), B(), T(" "), B(), T("two")]
    elif shape == 3:
        nodes = [T("one"), B(), T("two"), B(), T("three")]
    else:
        nodes = [T("one"), B(), T("two"), B()]
    lang = "und" if (f1 == 2 or f2 == 2) else "en-US"
    cs = CaptionSet({lang: CaptionList([Caption(1000000, 2000000, nodes), Caption(3000000, 4000000, [T("tail")])])})
    want = [_norm_lines(c.get_text()) for c in cs.get_captions(lang)]
    cur = cs
    for step in range(4):
        cur = _hop(f1 if step % 2 == 0 else f2, cur)
        caps = cur.get_captions(cur.get_languages()[0])
        if len(caps) != 2:
            return "cue count changed on the chain"
        if [_norm_lines(c.get_text()) for c in caps] != want:
            return "text lines changed on the chain"
        if [(c.start, c.end) for c in caps] != [(1000000, 2000000), (3000000, 4000000)]:
            return "times changed on the chain"
    return ""
