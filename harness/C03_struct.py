"""C03 - cue structure: node-kind sequences (TEXT / EMPTY TEXT / BREAK) through each writer.

Real code: public SRTWriter.write, WebVTTWriter.write, MicroDVDWriter.write; DFXPWriter._recreate_text,
LegacyDFXPWriter._recreate_text, SAMIWriter._recreate_text (bs4 emits p.string verbatim: contract).
Oracle: the reference block parser of the format finds exactly one cue whose non-empty lines are the
TEXT placeholders in order; consecutive breaks give a dropped line or &nbsp;, never a second cue,
a truncated cue or a blank line inside the cue.
"""
from pycaption import SRTWriter, WebVTTWriter, MicroDVDWriter, SAMIWriter
from pycaption.dfxp import DFXPWriter
from pycaption.dfxp.extras import LegacyDFXPWriter
from pycaption.base import Caption, CaptionNode, CaptionSet, CaptionList

NAMES = ("alpha", "bravo", "charlie", "delta", "echo", "fox", "golf")


def _nodes(kinds):
    """kinds[i]: 0 TEXT, 1 EMPTY TEXT, 2 BREAK.  Returns (nodes, expected lines) or None if outside the domain
    (a line made of two adjacent text nodes; no visible text)."""
    nodes = []
    want = []
    prev_text = False
    for i, k in enumerate(kinds):
        if k == 2:
            nodes.append(CaptionNode.create_break())
            prev_text = False
        else:
            if prev_text:
                return None
            prev_text = True
            if k == 0:
                nodes.append(CaptionNode.create_text(NAMES[i]))
                want.append(NAMES[i])
            else:
                nodes.append(CaptionNode.create_text(""))
    if not want:
        return None
    return nodes, want


def _dom(kinds, n):
    if len(kinds) != n:
        return False
    ok = True
    for k in kinds:
        ok = ok & (0 <= k) & (k <= 2)
    return ok


def _cs(nodes):
    return CaptionSet({"en": CaptionList([Caption(1000000, 2000000, nodes),
                                          Caption(3000000, 4000000, [CaptionNode.create_text("tail")])])})


def _lines_ok(lines, want):
    got = [ln.strip() for ln in lines]
    got = [ln for ln in got if ln != "" and ln != "&nbsp;" and ln != " "]
    return got == want


def _srt(kinds):
    r = _nodes(kinds)
    if r is None:
        return ""
    nodes, want = r
    out = SRTWriter().write(_cs(nodes))
    # SubRip block grammar: blocks are separated by blank (whitespace-only) lines
    blocks = []
    cur = []
    for ln in out.split("\n"):
        if ln.strip() == "":
            if cur:
                blocks.append(cur)
                cur = []
        else:
            cur.append(ln)
    if cur:
        blocks.append(cur)
    if len(blocks) != 2:
        return "block count"
    b = blocks[0]
    if b[0] != "1" or b[1] != "00:00:01,000 --> 00:00:02,000":
        return "block head"
    if not _lines_ok(b[2:], want):
        return "lines"
    if blocks[1] != ["2", "00:00:03,000 --> 00:00:04,000", "tail"]:
        return "second block"
    return ""


def _vtt(kinds):
    r = _nodes(kinds)
    if r is None:
        return ""
    nodes, want = r
    out = WebVTTWriter().write(_cs(nodes))
    if not out.startswith("WEBVTT\n\n"):
        return "header"
    blocks = []
    cur = []
    for ln in out[8:].split("\n"):
        if ln == "":
            if cur:
                blocks.append(cur)
                cur = []
        else:
            cur.append(ln)
    if cur:
        blocks.append(cur)
    if len(blocks) != 2:
        return "cue count"
    b = blocks[0]
    if b[0] != "00:01.000 --> 00:02.000":
        return "timing line"
    for ln in b[1:]:
        if "-->" in ln:
            return "arrow"
    if not _lines_ok(b[1:], want):
        return "lines"
    if blocks[1] != ["00:03.000 --> 00:04.000", "tail"]:
        return "second cue"
    return ""


def _mdvd(kinds):
    r = _nodes(kinds)
    if r is None:
        return ""
    nodes, want = r
    out = MicroDVDWriter().write(_cs(nodes))
    lines = out.split("\n")
    if lines[-1] != "":
        return "final newline"
    lines = lines[:-1]
    if len(lines) != 2:
        return "line count"
    if not lines[0].startswith("{25}{50}"):
        return "head"
    if not _lines_ok(lines[0][8:].split("|"), want):
        return "lines"
    if lines[1] != "{75}{100}tail":
        return "second line"
    return ""


def _markup(frag, want):
    # fragment of a <p>: lines separated by <br/>; no other markup may appear for plain text nodes
    parts = frag.split("<br/>")
    for p in parts:
        if "<" in p or ">" in p:
            return "stray markup"
    return "" if _lines_ok(parts, want) else "lines"


def _dfxp(kinds):
    r = _nodes(kinds)
    if r is None:
        return ""
    nodes, want = r
    return _markup(DFXPWriter()._recreate_text(Caption(0, 1, nodes), None), want)


def _legacy(kinds):
    r = _nodes(kinds)
    if r is None:
        return ""
    nodes, want = r
    return _markup(LegacyDFXPWriter()._recreate_text(Caption(0, 1, nodes), None), want)


def _sami(kinds):
    r = _nodes(kinds)
    if r is None:
        return ""
    nodes, want = r
    return _markup(SAMIWriter()._recreate_text(nodes), want)


def srt_struct4(kinds: list[int]) -> str:
    """
    pre: _dom(kinds, 4)
    post: _ == ""
    """
    return _srt(kinds)


def srt_struct5(kinds: list[int]) -> str:
    """
    pre: _dom(kinds, 5)
    post: _ == ""
    """
    return _srt(kinds)


def vtt_struct4(kinds: list[int]) -> str:
    """
    pre: _dom(kinds, 4)
    post: _ == ""
    """
    return _vtt(kinds)


def vtt_struct5(kinds: list[int]) -> str:
    """
    pre: _dom(kinds, 5)
    post: _ == ""
    """
    return _vtt(kinds)


def mdvd_struct5(kinds: list[int]) -> str:
    """
    pre: _dom(kinds, 5)
    post: _ == ""
    """
    return _mdvd(kinds)


def dfxp_struct5(kinds: list[int]) -> str:
    """
    pre: _dom(kinds, 5)
    post: _ == ""
    """
    return _dfxp(kinds)


def legacy_struct5(kinds: list[int]) -> str:
    """
    pre: _dom(kinds, 5)
    post: _ == ""
    """
    return _legacy(kinds)


def sami_struct5(kinds: list[int]) -> str:
    """
    pre: _dom(kinds, 5)
    post: _ == ""
    """
    return _sami(kinds)


def srt_struct7(kinds: list[int]) -> str:
    """
    pre: _dom(kinds, 7)
    post: _ == ""
    """
    return _srt(kinds)


def vtt_struct7(kinds: list[int]) -> str:
    """
    pre: _dom(kinds, 7)
    post: _ == ""
    """
    return _vtt(kinds)


def mdvd_struct7(kinds: list[int]) -> str:
    """
    pre: _dom(kinds, 7)
    post: _ == ""
    """
    return _mdvd(kinds)


def dfxp_struct7(kinds: list[int]) -> str:
    """
    pre: _dom(kinds, 7)
    post: _ == ""
    """
    return _dfxp(kinds)


def sami_struct7(kinds: list[int]) -> str:
    """
    pre: _dom(kinds, 7)
    post: _ == ""
    """
    return _sami(kinds)
