"""C03 - escaping: one line of arbitrary printable text through each writer's real encoding code,
decoded again by the reference decoder of the target format (harness/ref_text.py).

Real code executed: WebVTTWriter._encode_illegal_characters / _group_cues_by_layout,
DFXPWriter._encode / _recreate_text, LegacyDFXPWriter._recreate_text, SAMIWriter._encode /
_recreate_text, SRTWriter._recreate_lang, MicroDVDWriter._recreate_lang.
"""
from pycaption import SRTWriter, WebVTTWriter, MicroDVDWriter, SAMIWriter
from pycaption.dfxp import DFXPWriter
from pycaption.dfxp.extras import LegacyDFXPWriter
from pycaption.base import Caption, CaptionNode, CaptionSet, CaptionList
from harness.ref_text import decode_entities, XML_ENT, VTT_ENT, printable, metachars, text_of, visible


def _cap(s):
    return Caption(1000000, 2000000, [CaptionNode.create_text(s)])


def _vtt(s):
    groups = WebVTTWriter()._group_cues_by_layout([CaptionNode.create_text(s)], CaptionSet({"en": CaptionList()}))
    if len(groups) != 1:
        return "groups"
    enc = groups[0][0]
    if "-->" in enc:
        return "arrow in cue text"
    if "\n" in enc:
        return "newline in cue text"
    ok, dec = decode_entities(enc, VTT_ENT)
    if not ok:
        return "not valid cue text"
    return "" if dec.strip() == s.strip() else "decoded text differs"


def vtt_text(cps: list[int]) -> str:
    """
    pre: printable(cps, 1, 3) and visible(text_of(cps))
    post: _ == ""
    """
    return _vtt(text_of(cps))


def vtt_amp4(cps: list[int]) -> str:
    """
    pre: printable(cps, 3, 3)
    post: _ == ""
    """
    cps = [38] + cps
    return _vtt(text_of(cps))


def _xml_fragment(frag, s):
    if "\n" in frag:
        return "newline"
    ok, dec = decode_entities(frag, XML_ENT)
    if not ok:
        return "not well-formed character data"
    return "" if dec.strip() == s.strip() else "decoded text differs"


def _dfxp(s):
    w = DFXPWriter()
    return _xml_fragment(w._recreate_text(_cap(s), None), s)


def dfxp_text(cps: list[int]) -> str:
    """
    pre: printable(cps, 1, 3) and visible(text_of(cps))
    post: _ == ""
    """
    return _dfxp(text_of(cps))


def dfxp_amp4(cps: list[int]) -> str:
    """
    pre: printable(cps, 3, 3)
    post: _ == ""
    """
    cps = [38] + cps
    return _dfxp(text_of(cps))


def legacy_dfxp_text(cps: list[int]) -> str:
    """
    pre: printable(cps, 1, 3) and visible(text_of(cps))
    post: _ == ""
    """
    s = text_of(cps)
    return _xml_fragment(LegacyDFXPWriter()._recreate_text(_cap(s), None), s)


def legacy_dfxp_amp4(cps: list[int]) -> str:
    """
    pre: printable(cps, 3, 3)
    post: _ == ""
    """
    cps = [38] + cps
    s = text_of(cps)
    return _xml_fragment(LegacyDFXPWriter()._recreate_text(_cap(s), None), s)


def sami_text(cps: list[int]) -> str:
    """
    pre: printable(cps, 1, 3) and visible(text_of(cps))
    post: _ == ""
    """
    s = text_of(cps)
    return _xml_fragment(SAMIWriter()._recreate_text([CaptionNode.create_text(s)]), s)


def sami_amp4(cps: list[int]) -> str:
    """
    pre: printable(cps, 3, 3)
    post: _ == ""
    """
    cps = [38] + cps
    s = text_of(cps)
    return _xml_fragment(SAMIWriter()._recreate_text([CaptionNode.create_text(s)]), s)


def srt_text(cps: list[int]) -> str:
    """
    pre: printable(cps, 1, 3) and visible(text_of(cps))
    post: _ == ""
    """
    s = text_of(cps)
    out = SRTWriter().write(CaptionSet({"en": CaptionList([_cap(s)])}))
    head = "1\n00:00:01,000 --> 00:00:02,000\n"
    if not out.startswith(head):
        return "head"
    body = out[len(head):]
    if not body.endswith("\n"):
        return "tail"
    body = body[:-1]
    if "\n" in body:
        return "extra line"
    return "" if body.strip() == s.strip() else "text differs"


def mdvd_text(cps: list[int]) -> str:
    """
    pre: printable(cps, 1, 3) and visible(text_of(cps)) and all(c != 124 for c in cps)
    post: _ == ""
    """
    s = text_of(cps)
    out = MicroDVDWriter().write(CaptionSet({"en": CaptionList([_cap(s)])}))
    head = "{25}{50}"
    if not out.startswith(head):
        return "head"
    body = out[len(head):]
    if not body.endswith("\n"):
        return "tail"
    body = body[:-1]
    if "\n" in body or "|" in body:
        return "extra line"
    return "" if body.strip() == s.strip() else "text differs"
