"""Small helpers shared by harness modules (pure python, safe under CrossHair tracing)."""


def num(s, a, b):
    """Value of the decimal field s[a:b], or -1 if a character is not an ASCII digit."""
    v = 0
    for i in range(a, b):
        c = ord(s[i])
        if c < 48 or c > 57:
            return -1
        v = v * 10 + (c - 48)
    return v


def hms_ok(s, off, sep, us):
    """s[off:off+12] is HH:MM:SS<sep>mmm denoting us truncated to ms (us < 100 h)."""
    if not (s[off + 2] == ":" and s[off + 5] == ":" and s[off + 8] == sep):
        return "shape"
    if num(s, off, off + 2) != us // 3600000000:
        return "hours"
    if num(s, off + 3, off + 5) != us // 60000000 % 60:
        return "minutes"
    if num(s, off + 6, off + 8) != us // 1000000 % 60:
        return "seconds"
    if num(s, off + 9, off + 12) != us // 1000 % 1000:
        return "millis"
    return ""


def digits_str(ds):
    return "".join(chr(48 + d) for d in ds)


def is_digits(ds, n):
    return len(ds) == n and all(0 <= d <= 9 for d in ds)
