"""C16 - roll-up and paint-on SCC: every displayable character is returned exactly once, in order, rows kept together;
captions ordered, start < end, each ends exactly when the next begins.

Real code: public SCCReader.read -> _translate_command (RU2/RU3/RU4/RDC/CR), _roll_up, _flush_implicit_buffers,
NotifyingDict.set_active, CaptionCreator.create_and_store / correct_last_timing, TimingCorrectingCaptionList.extend.
Symbolic: mode (roll-up 2/3/4 rows, paint-on), number of rows, words per row, base row, single or doubled control
codes, drop / non-drop timecode (timecodes themselves are concrete: see C06 for the arithmetic).
"""
from pycaption.scc import SCCReader
from vlib import ref608 as R

HEADER = "Scenarist_SCC V1.0\n\n"
TEXTS = ("ab", "cdef", "gh", "ijkl", "mn")


def _dbl(words, dbl):
    if not dbl:
        return list(words)
    out = []
    for w in words:
        out.append(w)
        if R.classify(w) in ("misc", "pac", "tab", "midrow", "special", "extended"):
            out.append(w)
    return out


def _tc(sec, drop):
    return "%02d:%02d:%02d%s00" % (sec // 3600, sec // 60 % 60, sec % 60, ";" if drop else ":")


def _mode_word(mode):
    if mode == 0:
        return R.RU2
    if mode == 1:
        return R.RU3
    if mode == 2:
        return R.RU4
    return R.RDC


FULL = ("ABCDEFGHIJKLMNOPQRSTUVWXYZ012345", "abcdefghijklmnopqrstuvwxyz678901", "ZYXWVUTSRQPONMLKJIHGFEDCBA987654")


def _tc2(tk, i, drop):
    """line stamps by kind: 0 = from 00:00:00:00 every 2 s; 1 = last of three lines in second 59 at frame 20
    (its transmission crosses the minute); 2 = across the hour (00:59:57:25 + 2 s per line)"""
    sep = ";" if drop else ":"
    if tk == 0:
        sec, fr = 2 * i, 0
    elif tk == 1:
        sec, fr = 55 + 2 * i, 10 * i
    else:
        sec, fr = 3597 + 2 * i, 25
    return "%02d:%02d:%02d%s%02d" % (sec // 3600, sec // 60 % 60, sec % 60, sep, fr)


def _stream(mode, nrows, long_rows, base15, dbl, drop, cr_first, tk=None, full=False):
    lines = []
    texts = []
    for i in range(nrows):
        t = TEXTS[i] if not long_rows else TEXTS[i] + TEXTS[(i + 1) % 5]
        if full:
            t = FULL[i % 3]
        texts.append(t)
        if mode < 3:
            row = 15 if base15 else 14
            if cr_first:
                words = [_mode_word(mode), R.CR, R.pac(row)] + R.chars(t)
            else:
                words = ([_mode_word(mode)] if i == 0 else []) + [R.pac(row)] + R.chars(t) + [R.CR]
        else:
            row = (13 + i) if base15 else (5 + 2 * i)
            words = [R.RDC, R.pac(row, 0 if full else 4)] + R.chars(t)
        lines.append((_tc(2 + 2 * i, drop) if tk is None else _tc2(tk, i, drop)) + "\t" + " ".join(_dbl(words, dbl)))
    return HEADER + "\n\n".join(lines) + "\n", texts


def _check(mode, nrows, long_rows, base15, dbl, drop, cr_first, tk=None, full=False):
    doc, texts = _stream(mode, nrows, long_rows, base15, dbl, drop, cr_first, tk, full)
    try:
        caps = SCCReader().read(doc).get_captions("en-US")
    except Exception as e:
        return "reader raised " + type(e).__name__
    joined = ""
    for c in caps:
        joined += "".join(c.get_text().split())
    if joined != "".join(texts):
        return "characters lost, duplicated or reordered"
    for t in texts:
        if not any(t in "".join(c.get_text().split()) for c in caps):
            return "a row's text was split over captions"
    for i, c in enumerate(caps):
        if not (c.start < c.end):
            return "start < end"
        if i + 1 < len(caps):
            if not (c.start < caps[i + 1].start):
                return "captions not ordered by start"
            if c.end != caps[i + 1].start:
                return "a caption must end exactly when the next one begins"
    return ""


def rollup(mode: int, nrows: int, long_rows: bool, base15: bool, dbl: bool, drop: bool, cr_first: bool) -> str:
    """
    pre: 0 <= mode <= 2 and 1 <= nrows <= 3
    post: _ == ""
    """
    n = 1 if nrows == 1 else (2 if nrows == 2 else 3)
    return _check(mode, n, long_rows, base15, dbl, drop, cr_first)


def painton(nrows: int, long_rows: bool, base15: bool, dbl: bool, drop: bool) -> str:
    """
    pre: 1 <= nrows <= 3
    post: _ == ""
    """
    n = 1 if nrows == 1 else (2 if nrows == 2 else 3)
    return _check(3, n, long_rows, base15, dbl, drop, False)


def stamps_and_full_rows(mode: int, tk: int, full: bool, dbl: bool, drop: bool, cr_first: bool) -> str:
    """
    pre: 0 <= mode <= 3 and 0 <= tk <= 2
    post: _ == ""
    """
    # three rows; the first line stamped 00:00:00:00, or the last line's transmission crossing a minute / the
    # lines crossing the hour; rows of a few characters or of the full 32 columns
    m = 0 if mode == 0 else (1 if mode == 1 else (2 if mode == 2 else 3))
    k = 0 if tk == 0 else (1 if tk == 1 else 2)
    return _check(m, 3, False, True, dbl, drop, cr_first and m < 3, k, full)


def rollup5(mode: int, nrows: int, long_rows: bool, dbl: bool, cr_first: bool) -> str:
    """
    pre: 0 <= mode <= 2 and 4 <= nrows <= 5
    post: _ == ""
    """
    return _check(mode, 4 if nrows == 4 else 5, long_rows, True, dbl, False, cr_first)


def mode_switch(first: int, second: int, dbl: bool) -> str:
    """
    pre: 0 <= first <= 3 and 0 <= second <= 3 and first != second
    post: _ == ""
    """
    # one row in one mode, then a switch to another mode with one more row: the first row must be flushed, not lost
    def line(mode, t, sec):
        if mode < 3:
            words = [_mode_word(mode), R.CR, R.pac(15)] + R.chars(t)
        else:
            words = [R.RDC, R.pac(10, 4)] + R.chars(t)
        return _tc(sec, False) + "\t" + " ".join(_dbl(words, dbl))
    doc = HEADER + line(first, "abcd", 2) + "\n\n" + line(second, "efgh", 5) + "\n"
    try:
        caps = SCCReader().read(doc).get_captions("en-US")
    except Exception as e:
        return "reader raised " + type(e).__name__
    joined = "".join("".join(c.get_text().split()) for c in caps)
    if joined != "abcdefgh":
        return "characters lost, duplicated or reordered at a mode switch"
    for i, c in enumerate(caps):
        if not (c.start < c.end):
            return "start < end"
        if i + 1 < len(caps) and c.end != caps[i + 1].start:
            return "a caption must end exactly when the next one begins"
    return ""


def painton_multi_position(npos: int, preceded: bool, dbl: bool, drop: bool) -> str:
    """
    pre: 1 <= npos <= 3
    post: _ == ""
    """
    # ONE Resume-Direct-Captioning block that paints text at 1-3 separate screen positions (returned as that many
    # captions with one start) - as the last block of the stream: every part gets start < end, parts shown together
    # end together
    n = 1 if npos == 1 else (2 if npos == 2 else 3)
    rows = (3, 8, 13)
    lines = []
    texts = []
    sec = 2
    if preceded:
        lines.append(_tc(sec, drop) + "\t" + " ".join(_dbl([R.RDC, R.pac(15, 0)] + R.chars("zz"), dbl)))
        texts.append("zz")
        sec += 3
    words = [R.RDC]
    for j in range(n):
        t = TEXTS[j]
        words += [R.pac(rows[j], 4 * j)] + R.chars(t)
        texts.append(t)
    lines.append(_tc(sec, drop) + "\t" + " ".join(_dbl(words, dbl)))
    doc = HEADER + "\n\n".join(lines) + "\n"
    try:
        caps = SCCReader().read(doc).get_captions("en-US")
    except Exception as e:
        return "reader raised " + type(e).__name__
    if "".join("".join(c.get_text().split()) for c in caps) != "".join(texts):
        return "characters lost, duplicated or reordered"
    last = [c for c in caps if c.start == caps[-1].start]
    if len(last) != n:
        return "parts of one paint-on block do not share their start"
    for c in caps:
        if not (c.start < c.end):
            return "start < end"
    if len(set(c.end for c in last)) != 1:
        return "parts shown together do not end together"
    if preceded and caps[0].end != last[0].start:
        return "a caption must end exactly when the next one begins"
    return ""
