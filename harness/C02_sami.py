"""C02 - SAMI writer: which SYNC blocks are created for a language's cues.

Real code executed: SAMIWriter._recreate_p_tag, _recreate_sync, _recreate_blank_tag,
_recreate_p_lang, _recreate_style (the per-caption part of SAMIWriter.write), on the contract
stub of bs4 (harness/fakesoup.py).  _recreate_text is stubbed (text is C03's business).

Oracle from the statement: one sync per cue at start // 1000 ms (an integer); after a cue that
is not the language's last one, a blank sync (&nbsp;) at end // 1000 ms unless the next cue
starts at that millisecond; nothing after the last cue.
"""
from pycaption.sami import SAMIWriter
from pycaption.base import Caption, CaptionNode, CaptionSet, CaptionList
from harness.fakesoup import sami_soup

DAY = 86400000000


def _write_lang(times):
    w = SAMIWriter()
    w._recreate_text = lambda nodes: "T"
    soup = sami_soup()
    cs = CaptionSet({"en": CaptionList()})
    w.last_time = None
    for i in range(0, len(times), 2):
        a, b = times[i], times[i + 1]
        c = Caption(a, b, [CaptionNode.create_text("t")])
        soup = w._recreate_p_tag(c, soup, "en", "en", cs)
    return [(t.attrs.get("start"), [p.string for p in t.contents]) for t in soup.body.contents if t.name == "sync"]


def _expected(times):
    exp = []
    n = len(times) // 2
    for i in range(n):
        a, b = times[2 * i], times[2 * i + 1]
        exp.append((a // 1000, "T"))
        if i + 1 < n and b // 1000 != times[2 * i + 2] // 1000:
            exp.append((b // 1000, "&nbsp;"))
    return exp


def _cmp(got, exp):
    if len(got) != len(exp):
        return "sync count"
    for (start, ps), (t, kind) in zip(got, exp):
        if not isinstance(start, int) or isinstance(start, bool):
            return "start attribute is not an integer"
        if start != t:
            return "sync time"
        if ps != [kind]:
            return "sync content"
    return ""


def sami_sync_2(a0: int, b0: int, a1: int, b1: int) -> str:
    """
    pre: 0 <= a0 <= b0 < 86400000000 and a0 <= a1 <= b1 < 86400000000
    post: _ == ""
    """
    t = [a0, b0, a1, b1]
    return _cmp(_write_lang(t), _expected(t))


def sami_sync_3(a0: int, b0: int, a1: int, b1: int, a2: int, b2: int) -> str:
    """
    pre: 0 <= a0 <= b0 < 86400000000 and a0 <= a1 <= b1 < 86400000000 and a1 <= a2 <= b2 < 86400000000
    post: _ == ""
    """
    t = [a0, b0, a1, b1, a2, b2]
    return _cmp(_write_lang(t), _expected(t))


# float-valued instants as SCCReader produces them (frame k of non-drop timecode = k*100100/3 us),
# computed by the real translator; the symbolic part is which frames are used (finite choice).
def _scc_instant(k):
    from pycaption.scc import _SccTimeTranslator
    return _SccTimeTranslator._translate_time("00:%02d:%02d:%02d" % (k // 1800, k // 30 % 60, k % 30), 0)


FLOAT_INSTANTS = [_scc_instant(k) for k in (0, 1, 59, 1799, 53999)]


def _pick(i):
    # explicit branches instead of a symbolic list index (which CrossHair would realise)
    if i == 0:
        return FLOAT_INSTANTS[0]
    if i == 1:
        return FLOAT_INSTANTS[1]
    if i == 2:
        return FLOAT_INSTANTS[2]
    if i == 3:
        return FLOAT_INSTANTS[3]
    return FLOAT_INSTANTS[4]


def sami_sync_float(i0: int, j0: int, i1: int, j1: int) -> str:
    """
    pre: 0 <= i0 <= j0 <= i1 <= j1 < 5
    post: _ == ""
    """
    t = [_pick(i0), _pick(j0), _pick(i1), _pick(j1)]
    return _cmp(_write_lang(t), _expected([int(x) for x in t]))


# --- public API replay ------------------------------------------------------------
def _public(times, as_float=False):
    import re
    caps = []
    for i in range(0, len(times), 2):
        a, b = times[i], times[i + 1]
        if as_float:
            a, b = float(a), float(b)
        caps.append(Caption(a, b, [CaptionNode.create_text("T")]))
    out = SAMIWriter().write(CaptionSet({"en": CaptionList(caps)}))
    got = []
    for m in re.finditer(r'<sync start="([^"]*)">\s*<p class="en">\s*(\S+)\s*</p>', out):
        s = m.group(1)
        got.append((int(s) if re.fullmatch(r"\d+", s) else s, [m.group(2)]))
    return _cmp(got, _expected(times))


def public_sami_sync_2(a0, b0, a1, b1):
    return _public([a0, b0, a1, b1])


def public_sami_sync_3(a0, b0, a1, b1, a2, b2):
    return _public([a0, b0, a1, b1, a2, b2])


def public_sami_sync_float(i0, j0, i1, j1):
    t = [FLOAT_INSTANTS[i0], FLOAT_INSTANTS[j0], FLOAT_INSTANTS[i1], FLOAT_INSTANTS[j1]]
    import re
    caps = [Caption(t[0], t[1], [CaptionNode.create_text("T")]), Caption(t[2], t[3], [CaptionNode.create_text("T")])]
    out = SAMIWriter().write(CaptionSet({"en": CaptionList(caps)}))
    bad = [m for m in re.findall(r'<sync start="([^"]*)">', out) if not re.fullmatch(r"\d+", m)]
    return ("non-integer sync start " + repr(bad)) if bad else ""
