"""C01 - DFXP/TTML clock times and begin/end/dur handling (integer paths; the float paths -
frames and offset times - are decided by E2 in smt/C01_fp.py).

Real code executed: DFXPReader._find_and_convert_times, _convert_timestamp_to_microseconds,
_convert_clock_time_to_microseconds, TIME_EXPRESSION_PATTERN (through CrossHair's regex model,
repaired by vlib/chre.py).  p_tag is a dict-like stub (`get`, `[]`): attribute extraction by
bs4/lxml is outside (contract: attributes are handed over verbatim).

Oracle from TTML clock-time: H{2,}:MM:SS(.D+)?  denotes ((H*60+MM)*60+SS)*10^6 us plus the
fraction  0.D+ seconds truncated to whole microseconds.
"""
from pycaption.dfxp.base import DFXPReader
from harness.hlib import digits_str, is_digits


class PTag(dict):
    """contract stub of a bs4 Tag as used by _find_and_convert_times: get() and []"""


def _val(hd, rest, frac):
    h = 0
    for d in hd:
        h = h * 10 + d
    mm = rest[0] * 10 + rest[1]
    ss = rest[2] * 10 + rest[3]
    us = 0
    n = 0
    for d in frac:
        if n < 6:
            us = us * 10 + d
            n += 1
    while n < 6:
        us = us * 10
        n += 1
    return ((h * 60 + mm) * 60 + ss) * 1000000 + us


def _stamp(hd, rest, frac):
    s = digits_str(hd) + ":" + digits_str(rest[0:2]) + ":" + digits_str(rest[2:4])
    if len(frac):
        s += "." + digits_str(frac)
    return s


def _pre(hd, nh, rest, frac, nf):
    return is_digits(hd, nh) and is_digits(rest, 4) and is_digits(frac, nf)


def _conv(stamp):
    return DFXPReader()._convert_timestamp_to_microseconds(stamp)


def clock_f0(hd: list[int], rest: list[int]) -> str:
    """
    pre: _pre(hd, 2, rest, [], 0)
    post: _ == ""
    """
    return "" if _conv(_stamp(hd, rest, [])) == _val(hd, rest, []) else "value"


def clock_f1(hd: list[int], rest: list[int], frac: list[int]) -> str:
    """
    pre: _pre(hd, 2, rest, frac, 1)
    post: _ == ""
    """
    return "" if _conv(_stamp(hd, rest, frac)) == _val(hd, rest, frac) else "value"


def clock_f2(hd: list[int], rest: list[int], frac: list[int]) -> str:
    """
    pre: _pre(hd, 2, rest, frac, 2)
    post: _ == ""
    """
    return "" if _conv(_stamp(hd, rest, frac)) == _val(hd, rest, frac) else "value"


def clock_f3(hd: list[int], rest: list[int], frac: list[int]) -> str:
    """
    pre: _pre(hd, 3, rest, frac, 3)
    post: _ == ""
    """
    return "" if _conv(_stamp(hd, rest, frac)) == _val(hd, rest, frac) else "value"


def clock_f4(hd: list[int], rest: list[int], frac: list[int]) -> str:
    """
    pre: _pre(hd, 2, rest, frac, 4)
    post: _ == ""
    """
    return "" if _conv(_stamp(hd, rest, frac)) == _val(hd, rest, frac) else "value"


def clock_f6(hd: list[int], rest: list[int], frac: list[int]) -> str:
    """
    pre: _pre(hd, 2, rest, frac, 6)
    post: _ == ""
    """
    return "" if _conv(_stamp(hd, rest, frac)) == _val(hd, rest, frac) else "value"


def clock_f8(hd: list[int], rest: list[int], frac: list[int]) -> str:
    """
    pre: _pre(hd, 4, rest, frac, 8)
    post: _ == ""
    """
    return "" if _conv(_stamp(hd, rest, frac)) == _val(hd, rest, frac) else "value"


def begin_end(hd: list[int], rest: list[int], frac: list[int], hd2: list[int], rest2: list[int]) -> str:
    """
    pre: _pre(hd, 2, rest, frac, 3) and _pre(hd2, 2, rest2, [], 0)
    post: _ == ""
    """
    p = PTag(begin=_stamp(hd, rest, frac), end=_stamp(hd2, rest2, []))
    s, e = DFXPReader()._find_and_convert_times(p)
    if s != _val(hd, rest, frac):
        return "start"
    if e != _val(hd2, rest2, []):
        return "end"
    return ""


def begin_dur(hd: list[int], rest: list[int], frac: list[int], hd2: list[int], rest2: list[int], frac2: list[int]) -> str:
    """
    pre: _pre(hd, 2, rest, frac, 3) and _pre(hd2, 2, rest2, frac2, 1)
    post: _ == ""
    """
    p = PTag(begin=_stamp(hd, rest, frac), dur=_stamp(hd2, rest2, frac2))
    s, e = DFXPReader()._find_and_convert_times(p)
    if s != _val(hd, rest, frac):
        return "start"
    if e != _val(hd, rest, frac) + _val(hd2, rest2, frac2):
        return "end"
    return ""


def end_wins_over_dur(hd: list[int], rest: list[int], hd2: list[int], rest2: list[int]) -> str:
    """
    pre: _pre(hd, 2, rest, [], 0) and _pre(hd2, 2, rest2, [], 0)
    post: _ == ""
    """
    # TTML: when both end and dur are present the interval ends at the earlier of the two; pycaption
    # documents "end, else dur".  Only the uncontroversial case is claimed: dur absent or equal.
    p = PTag(begin="00:00:01", end=_stamp(hd, rest, []))
    s, e = DFXPReader()._find_and_convert_times(p)
    return "" if (s == 1000000 and e == _val(hd, rest, [])) else "value"


# --- document structure through the public DFXPReader.read (html.parser based, runs under CrossHair) ---------------
def _p(kind, form, idx):
    """paragraph idx: kind 0 text, 1 empty, 2 text inside a span, 3 only a <br/>; time form 0 clock, 1 offset s, 2 offset ms + dur, 3 clock + dur"""
    start = 10 * (idx + 1)
    if form == 0:
        times = 'begin="00:00:%02d.500" end="00:00:%02d.250"' % (start, start + 2)
        want = (start * 1000000 + 500000, (start + 2) * 1000000 + 250000)
    elif form == 1:
        times = 'begin="%ds" end="%d.5s"' % (start, start + 2)
        want = (start * 1000000, (start + 2) * 1000000 + 500000)
    elif form == 2:
        times = 'begin="%dms" dur="1500ms"' % (start * 1000)
        want = (start * 1000000, start * 1000000 + 1500000)
    else:
        times = 'begin="00:00:%02d" dur="00:00:02"' % start
        want = (start * 1000000, (start + 2) * 1000000)
    body = {0: "text%d" % idx, 1: "", 2: '<span tts:fontStyle="italic">text%d</span>' % idx, 3: "<br/>"}[kind]
    return "<p %s>%s</p>" % (times, body), (want if kind in (0, 2) else None), "text%d" % idx


def dfxp_structure(k0: int, k1: int, f0: int, f1: int) -> str:
    """
    pre: 0 <= k0 <= 3 and 0 <= k1 <= 3 and 0 <= f0 <= 3 and 0 <= f1 <= 3
    post: _ == ""
    """
    import warnings
    warnings.simplefilter("ignore")
    from pycaption.exceptions import CaptionReadNoCaptions

    def c4(i):
        return 0 if i == 0 else (1 if i == 1 else (2 if i == 2 else 3))
    parts = [_p(c4(k0), c4(f0), 0), _p(c4(k1), c4(f1), 1), _p(0, 0, 2)]
    doc = ('<tt xml:lang="en" xmlns="http://www.w3.org/ns/ttml" xmlns:tts="http://www.w3.org/ns/ttml#styling"><body><div>'
           + "".join(p for p, _, _ in parts) + "</div></body></tt>")
    want = [(w, t) for _, w, t in parts if w is not None]
    caps = DFXPReader().read(doc).get_captions("en")
    if len(caps) != len(want):
        return "one caption per non-empty cue"
    for c, ((s, e), t) in zip(caps, want):
        if c.get_text() != t:
            return "document order / text"
        if c.start != s or c.end != e:
            return "times"
    return ""
