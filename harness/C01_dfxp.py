"""C01 - DFXP/TTML clock times and begin/end/dur handling (integer paths; the float paths -
frames and offset times - are decided by E2 in smt/C01_fp.py).

Real code executed: DFXPReader._find_and_convert_times, _convert_timestamp_to_microseconds,
_convert_clock_time_to_microseconds, TIME_EXPRESSION_PATTERN (through CrossHair's regex model,
repaired by vlib/chre.py).  p_tag is a dict-like stub (`get`, `[]`): attribute extraction by
bs4/lxml is outside (contract: attributes are handed over verbatim).

Oracle from TTML clock-time: H{2,}:MM:SS(.D+)?  denotes ((H*60+MM)*60+SS)*10^6 us plus the
fraction  0.D+ seconds truncated to whole microseconds.
"""
from pycaption.dfxp.base import DFXPReader
from harness.hlib import digits_str, is_digits


class PTag(dict):
    """contract stub of a bs4 Tag as used by _find_and_convert_times: get() and []"""


def _val(hd, rest, frac):
    h = 0
    for d in hd:
        h = h * 10 + d
    mm = rest[0] * 10 + rest[1]
    ss = rest[2] * 10 + rest[3]
    us = 0
    n = 0
    for d in frac:
        if n < 6:
            us = us * 10 + d
            n += 1
    while n < 6:
        us = us * 10
        n += 1
    return ((h * 60 + mm) * 60 + ss) * 1000000 + us


def _stamp(hd, rest, frac):
    s = digits_str(hd) + ":" + digits_str(rest[0:2]) + ":" + digits_str(rest[2:4])
    if len(frac):
        s += "." + digits_str(frac)
    return s


def _pre(hd, nh, rest, frac, nf):
    return is_digits(hd, nh) and is_digits(rest, 4) and is_digits(frac, nf)


def _conv(stamp):
    return DFXPReader()._convert_timestamp_to_microseconds(stamp)


def clock_f0(hd: list[int], rest: list[int]) -> str:
    """
    pre: _pre(hd, 2, rest, [], 0)
    post: _ == ""
    """
    return "" if _conv(_stamp(hd, rest, [])) == _val(hd, rest, []) else "value"


def clock_f1(hd: list[int], rest: list[int], frac: list[int]) -> str:
    """
    pre: _pre(hd, 2, rest, frac, 1)
    post: _ == ""
    """
    return "" if _conv(_stamp(hd, rest, frac)) == _val(hd, rest, frac) else "value"


def clock_f2(hd: list[int], rest: list[int], frac: list[int]) -> str:
    """
    pre: _pre(hd, 2, rest, frac, 2)
    post: _ == ""
    """
    return "" if _conv(_stamp(hd, rest, frac)) == _val(hd, rest, frac) else "value"


def clock_f3(hd: list[int], rest: list[int], frac: list[int]) -> str:
    """
    pre: _pre(hd, 3, rest, frac, 3)
    post: _ == ""
    """
    return "" if _conv(_stamp(hd, rest, frac)) == _val(hd, rest, frac) else "value"


def clock_f4(hd: list[int], rest: list[int], frac: list[int]) -> str:
    """
    pre: _pre(hd, 2, rest, frac, 4)
    post: _ == ""
    """
    return "" if _conv(_stamp(hd, rest, frac)) == _val(hd, rest, frac) else "value"


def clock_f6(hd: list[int], rest: list[int], frac: list[int]) -> str:
    """
    pre: _pre(hd, 2, rest, frac, 6)
    post: _ == ""
    """
    return "" if _conv(_stamp(hd, rest, frac)) == _val(hd, rest, frac) else "value"


def clock_f8(hd: list[int], rest: list[int], frac: list[int]) -> str:
    """
    pre: _pre(hd, 4, rest, frac, 8)
    post: _ == ""
    """
    return "" if _conv(_stamp(hd, rest, frac)) == _val(hd, rest, frac) else "value"


def begin_end(hd: list[int], rest: list[int], frac: list[int], hd2: list[int], rest2: list[int]) -> str:
    """
    pre: _pre(hd, 2, rest, frac, 3) and _pre(hd2, 2, rest2, [], 0)
    post: _ == ""
    """
    p = PTag(begin=_stamp(hd, rest, frac), end=_stamp(hd2, rest2, []))
    s, e = DFXPReader()._find_and_convert_times(p)
    if s != _val(hd, rest, frac):
        return "start"
    if e != _val(hd2, rest2, []):
        return "end"
    return ""


def begin_dur(hd: list[int], rest: list[int], frac: list[int], hd2: list[int], rest2: list[int], frac2: list[int]) -> str:
    """
    pre: _pre(hd, 2, rest, frac, 3) and _pre(hd2, 2, rest2, frac2, 1)
    post: _ == ""
    """
    p = PTag(begin=_stamp(hd, rest, frac), dur=_stamp(hd2, rest2, frac2))
    s, e = DFXPReader()._find_and_convert_times(p)
    if s != _val(hd, rest, frac):
        return "start"
    if e != _val(hd, rest, frac) + _val(hd2, rest2, frac2):
        return "end"
    return ""


def end_wins_over_dur(hd: list[int], rest: list[int], hd2: list[int], rest2: list[int]) -> str:
    """
    pre: _pre(hd, 2, rest, [], 0) and _pre(hd2, 2, rest2, [], 0)
    post: _ == ""
    """
    # TTML: when both end and dur are present the interval ends at the earlier of the two; pycaption
    # documents "end, else dur".  Only the uncontroversial case is claimed: dur absent or equal.
    p = PTag(begin="00:00:01", end=_stamp(hd, rest, []))
    s, e = DFXPReader()._find_and_convert_times(p)
    return "" if (s == 1000000 and e == _val(hd, rest, [])) else "value"
