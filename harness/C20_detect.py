"""C20 - format detection: pycaption.detect_format and every reader's detect() on symbolic strings.

Oracle from the statement: for every non-empty string the result is the first reader class, in the
documented order DFXP, MicroDVD, WebVTT, SAMI, SRT, SCC, whose own detect accepts the string, or None;
nothing raises; "" raises CaptionReadNoCaptions.
"""
import pycaption
from pycaption import (detect_format, DFXPReader, MicroDVDReader, WebVTTReader, SAMIReader, SRTReader, SCCReader,
                       CaptionReadNoCaptions)
from harness.ref_text import text_of

ORDER = (DFXPReader, MicroDVDReader, WebVTTReader, SAMIReader, SRTReader, SCCReader)
ALPHA = (48, 49, 57, 10, 13, 123, 125, 45, 62, 32, 58, 44)  # 0 1 9 \n \r { } - > space : ,


def _alpha(cps, lo, hi):
    if not (lo <= len(cps) <= hi):
        return False
    ok = True
    for c in cps:
        m = False
        for k in ALPHA:
            m = m | (c == k)
        ok = ok & m
    return ok


MARKERS = ("", "WEBVTT", "<SAMI>", "</tt>", "Scenarist_SCC V1.0", "{1}{2}", "1\n", "-->", "{0}{0}", "<sami", "</TT>", "<", "\n<b>", "  ")


def _marker(i):
    if i == 0:
        return MARKERS[0]
    if i == 1:
        return MARKERS[1]
    if i == 2:
        return MARKERS[2]
    if i == 3:
        return MARKERS[3]
    if i == 4:
        return MARKERS[4]
    if i == 5:
        return MARKERS[5]
    if i == 6:
        return MARKERS[6]
    if i == 7:
        return MARKERS[7]
    if i == 8:
        return MARKERS[8]
    if i == 9:
        return MARKERS[9]
    if i == 10:
        return MARKERS[10]
    if i == 11:
        return MARKERS[11]
    if i == 12:
        return MARKERS[12]
    return MARKERS[13]


def _check(s):
    if s == "":
        try:
            detect_format(s)
        except CaptionReadNoCaptions:
            return ""
        except Exception:
            return "wrong exception for empty input"
        return "empty input accepted"
    want = None
    for r in ORDER:
        try:
            ok = r().detect(s)
        except Exception:
            return "detect raised in " + r.__name__
        if ok is not True and ok is not False:
            return "detect returned a non-bool in " + r.__name__
        if ok and want is None:
            want = r
    try:
        got = detect_format(s)
    except Exception:
        return "detect_format raised"
    return "" if got is want else "inconsistent result"


def detect_short(cps: list[int]) -> str:
    """
    pre: _alpha(cps, 0, 3)
    post: _ == ""
    """
    return _check(text_of(cps))


def detect_prefixed(cps: list[int], pre_i: int) -> str:
    """
    pre: _alpha(cps, 0, 2) and 1 <= pre_i < 14
    post: _ == ""
    """
    return _check(_marker(pre_i) + text_of(cps))


def detect_suffixed(cps: list[int], post_i: int) -> str:
    """
    pre: _alpha(cps, 0, 2) and 1 <= post_i < 11
    post: _ == ""
    """
    return _check(text_of(cps) + _marker(post_i))


def detect_suffixed1(cps: list[int], post_i: int) -> str:
    """
    pre: _alpha(cps, 0, 1) and 1 <= post_i < 11
    post: _ == ""
    """
    return _check(text_of(cps) + _marker(post_i))


def detect_markers2(pre_i: int, post_i: int) -> str:
    """
    pre: 1 <= pre_i < 14 and 1 <= post_i < 14
    post: _ == ""
    """
    return _check(_marker(pre_i) + _marker(post_i))


def detect_marked(cps: list[int], pre_i: int, post_i: int) -> str:
    """
    pre: _alpha(cps, 0, 1) and 1 <= pre_i < 14 and 1 <= post_i < 11
    post: _ == ""
    """
    return _check(_marker(pre_i) + text_of(cps) + _marker(post_i))


def detect_short5(cps: list[int]) -> str:
    """
    pre: _alpha(cps, 4, 5)
    post: _ == ""
    """
    return _check(text_of(cps))


DOCS = (
    "1\n00:00:01,000 --> 00:00:02,000\nfoo\n\n2\n00:00:03,000 --> 00:00:04,000\nbar\n",
    "WEBVTT\n\n00:01.000 --> 00:02.000\nfoo\n",
    "{25}{50}foo|bar\n{75}{100}baz\n",
    "Scenarist_SCC V1.0\n\n00:00:01:00\t9420 9470 c162 942f\n",
    '<sami><body><sync start="0"><p class="en">x</p></sync></body></sami>',
    '<tt xml:lang="en"><body><div><p begin="1s" end="2s">x</p></div></body></tt>',
)


def _doc(i):
    if i == 0:
        return DOCS[0]
    if i == 1:
        return DOCS[1]
    if i == 2:
        return DOCS[2]
    if i == 3:
        return DOCS[3]
    if i == 4:
        return DOCS[4]
    return DOCS[5]


def detect_truncated(i: int, k: int) -> str:
    """
    pre: 0 <= i < 6 and 0 <= k <= 80
    post: _ == ""
    """
    d = _doc(i)
    if k > len(d):
        return ""
    return _check(d[:k])


# --- pycaption's own output is recognised and read back -----------------------------------------
from pycaption import (SRTWriter, WebVTTWriter, MicroDVDWriter, SAMIWriter, DFXPWriter, SCCWriter)  # noqa: E402
from pycaption.base import Caption, CaptionNode, CaptionSet, CaptionList  # noqa: E402

TEXTS = ("hello", "12", "a b", "x, y: z")


def _text(i):
    if i == 0:
        return TEXTS[0]
    if i == 1:
        return TEXTS[1]
    if i == 2:
        return TEXTS[2]
    return TEXTS[3]


def _set(n, t0, t1, two_lines):
    caps = []
    for k in range(n):
        nodes = [CaptionNode.create_text(_text(t0 if k == 0 else t1))]
        if two_lines:
            nodes += [CaptionNode.create_break(), CaptionNode.create_text("second")]
        caps.append(Caption(1000000 + 3000000 * k, 2500000 + 3000000 * k, nodes))
    return CaptionSet({"en-US": CaptionList(caps)})


def _own(writer, reader, n, t0, t1, two_lines):
    cs = _set(n, t0, t1, two_lines)
    out = writer.write(cs)
    try:
        got = detect_format(out)
    except Exception:
        return "detect_format raised on own output"
    if got is not reader:
        return "own output not recognised"
    try:
        back = got().read(out)
    except Exception:
        return "own output not readable"
    langs = back.get_languages()
    if len(langs) != 1 or len(back.get_captions(langs[0])) != n:
        return "own output read back with another cue count"
    return ""


def own_output(w: int, n: int, t0: int, t1: int, two_lines: bool) -> str:
    """
    pre: 0 <= w < 4 and 1 <= n <= 2 and 0 <= t0 < 4 and 0 <= t1 < 4
    post: _ == ""
    """
    if w == 0:
        return _own(SRTWriter(), SRTReader, n, t0, t1, two_lines)
    if w == 1:
        return _own(WebVTTWriter(), WebVTTReader, n, t0, t1, two_lines)
    if w == 2:
        return _own(MicroDVDWriter(), MicroDVDReader, n, t0, t1, two_lines)
    return _own(SCCWriter(), SCCReader, n, t0, t1, two_lines)


# DFXP / SAMI go through bs4, lxml and cssutils, which do not run under CrossHair's tracing; their documents
# are produced (and read back) when this module is imported, detection of them runs under CrossHair.
def _markup_docs():
    import warnings
    warnings.simplefilter("ignore")
    docs = []
    for writer, reader in ((SAMIWriter, SAMIReader), (DFXPWriter, DFXPReader)):
        for t0 in range(4):
            for two in (False, True):
                out = writer().write(_set(2, t0, (t0 + 1) % 4, two))
                back = reader().read(out)
                n = sum(len(back.get_captions(lang)) for lang in back.get_languages())
                docs.append((out, reader, n))
    return docs


MARKUP_DOCS = _markup_docs()


def own_output_markup(i: int) -> str:
    """
    pre: 0 <= i < 16
    post: _ == ""
    """
    k = 0
    for out, reader, n in MARKUP_DOCS:
        if i == k:
            if n != 2:
                return "own output read back with another cue count"
            try:
                got = detect_format(out)
            except Exception:
                return "detect_format raised on own output"
            return "" if got is reader else "own output not recognised"
        k += 1
    return ""


# own output from caption sets with float times (what SCCReader produces) ---------------------------------
def own_output_float_times(w: int, k: int) -> str:
    """
    pre: 0 <= w < 4 and 0 <= k < 3
    post: _ == ""
    """
    t0 = (1301300.0, 33366.666666666664, 2002000.0)[0] if k == 0 else (33366.666666666664 if k == 1 else 2002000.0)
    cs = CaptionSet({"en-US": CaptionList([Caption(t0, t0 + 1501500.0, [CaptionNode.create_text("hello")]),
                                           Caption(t0 + 3003000.0, t0 + 4504500.0, [CaptionNode.create_text("bye")])])})
    if w == 0:
        writer, reader = SRTWriter(), SRTReader
    elif w == 1:
        writer, reader = WebVTTWriter(), WebVTTReader
    elif w == 2:
        writer, reader = MicroDVDWriter(), MicroDVDReader
    else:
        writer, reader = SCCWriter(), SCCReader
    out = writer.write(cs)
    try:
        got = detect_format(out)
    except Exception:
        return "detect_format raised on own output"
    if got is not reader:
        return "own output (float times) not recognised"
    try:
        back = got().read(out)
    except Exception:
        return "own output (float times) not readable"
    langs = back.get_languages()
    return "" if len(back.get_captions(langs[0])) == 2 else "cue count"
