"""C01 - SRT: public SRTReader.read on document templates with ONE symbolic stamp per contract.

Oracle (written from the SubRip grammar, not from the code): a stamp H+:MM:SS[,mmm] denotes
((H*60+MM)*60+SS)*10^6 + mmm*1000 microseconds; one caption per cue block with text, in order.
"""
from pycaption import SRTReader
from harness.hlib import digits_str, is_digits


def _val(hd, rest, frac):
    h = 0
    for d in hd:
        h = h * 10 + d
    mm = rest[0] * 10 + rest[1]
    ss = rest[2] * 10 + rest[3]
    ms = 0
    for d in frac:
        ms = ms * 10 + d
    return ((h * 60 + mm) * 60 + ss) * 1000000 + ms * 1000


def _stamp(hd, rest, frac):
    s = digits_str(hd) + ":" + digits_str(rest[0:2]) + ":" + digits_str(rest[2:4])
    if len(frac):
        s += "," + digits_str(frac)
    return s


def _times(doc, lang="en-US"):
    caps = SRTReader().read(doc, lang=lang).get_captions(lang)
    return [(c.start, c.end, c.get_text()) for c in caps]


def _check(doc, want):
    got = _times(doc)
    if len(got) != len(want):
        return "count"
    for g, w in zip(got, want):
        if g[0] != w[0]:
            return "start"
        if g[1] != w[1]:
            return "end"
        if g[2] != w[2]:
            return "text"
    return ""


def _pre(hd, nh, rest, frac, nf):
    return is_digits(hd, nh) and is_digits(rest, 4) and is_digits(frac, nf)


# --- position: start of cue 1 (HH:MM:SS,mmm) ---------------------------------
def srt_c1_start(hd: list[int], rest: list[int], frac: list[int], blank2: bool) -> str:
    """
    pre: _pre(hd, 2, rest, frac, 3)
    post: _ == ""
    """
    doc = ("1\n" + _stamp(hd, rest, frac) + " --> 99:59:59,999\nfoo\nbar\n\n" + ("\n" if blank2 else "")
           + "2\n00:00:03,000 --> 00:00:04,500\nbaz\n")
    return _check(doc, [(_val(hd, rest, frac), 359999999000, "foo\nbar"), (3000000, 4500000, "baz")])


def srt_c1_end(hd: list[int], rest: list[int], frac: list[int], crlf: bool) -> str:
    """
    pre: _pre(hd, 2, rest, frac, 3)
    post: _ == ""
    """
    nl = "\r\n" if crlf else "\n"
    doc = ("1" + nl + "00:00:00,000 --> " + _stamp(hd, rest, frac) + nl + "foo" + nl + nl
           + "2" + nl + "00:00:03,000 --> 00:00:04,500" + nl + "baz" + nl)
    return _check(doc, [(0, _val(hd, rest, frac), "foo"), (3000000, 4500000, "baz")])


def srt_c2_start(hd: list[int], rest: list[int], frac: list[int], trailing: bool) -> str:
    """
    pre: _pre(hd, 2, rest, frac, 3)
    post: _ == ""
    """
    doc = ("1\n00:00:01,000 --> 00:00:02,000\nfoo\n\n2\n" + _stamp(hd, rest, frac) + " --> 99:59:59,999\nbaz\nqux\n"
           + ("\n\n" if trailing else ""))
    return _check(doc, [(1000000, 2000000, "foo"), (_val(hd, rest, frac), 359999999000, "baz\nqux")])


def srt_c2_end(hd: list[int], rest: list[int], frac: list[int]) -> str:
    """
    pre: _pre(hd, 2, rest, frac, 3)
    post: _ == ""
    """
    doc = ("1\n00:00:01,000 --> 00:00:02,000\nfoo\n\n2\n00:00:02,000 --> " + _stamp(hd, rest, frac) + "\nbaz\n\n"
           "3\n01:02:03,004 --> 01:02:03,005\nlast\n")
    return _check(doc, [(1000000, 2000000, "foo"), (2000000, _val(hd, rest, frac), "baz"),
                        (3723004000, 3723005000, "last")])


# --- other lexical shapes (one position each) ----------------------------------
def srt_h1(hd: list[int], rest: list[int], frac: list[int]) -> str:
    """
    pre: _pre(hd, 1, rest, frac, 3)
    post: _ == ""
    """
    doc = "1\n" + _stamp(hd, rest, frac) + " --> 99:59:59,999\nfoo\n"
    return _check(doc, [(_val(hd, rest, frac), 359999999000, "foo")])


def srt_h3(hd: list[int], rest: list[int], frac: list[int]) -> str:
    """
    pre: _pre(hd, 3, rest, frac, 3)
    post: _ == ""
    """
    doc = "1\n00:00:00,000 --> " + _stamp(hd, rest, frac) + "\nfoo\n"
    return _check(doc, [(0, _val(hd, rest, frac), "foo")])


def srt_nofrac(hd: list[int], rest: list[int], frac: list[int], second: bool) -> str:
    """
    pre: _pre(hd, 2, rest, frac, 0)
    post: _ == ""
    """
    st = _stamp(hd, rest, frac)
    if second:
        doc = "1\n00:00:00,000 --> " + st + "\nfoo\n"
        want = [(0, _val(hd, rest, frac), "foo")]
    else:
        doc = "1\n" + st + " --> 99:59:59\nfoo\n"
        want = [(_val(hd, rest, frac), 359999000000, "foo")]
    return _check(doc, want)
