"""C09 - writing never alters its input and is deterministic.

Real code: write() of all eight writers (bs4-backed ones with the real bs4/lxml: every value is a
finite choice here, so nothing symbolic reaches the C boundary).  Symbolic: the structure selectors of
harness/csbuild.build_set (which levels carry a layout and of which kind, caption styles, document
styles, one or two languages, identical timespans, balanced / unclosed italics) and writer options
(video size given or not => RelativizationError path).
Oracle: structural snapshot before == after (also when write() raises); the same writer object writing
the same set twice, a fresh writer, and a writer that wrote another set before all return identical text.
"""
from pycaption import SRTWriter, WebVTTWriter, MicroDVDWriter, SAMIWriter, SCCWriter
from pycaption.dfxp import DFXPWriter
from pycaption.dfxp.extras import LegacyDFXPWriter, SinglePositioningDFXPWriter
from harness.csbuild import build_set, snap_set, StableHash
from pycaption.exceptions import RelativizationError


import pycaption.dfxp.base as _db
import pycaption.dfxp.extras as _dx
from harness.fakesoup import dfxp_soup, sami_soup
import pycaption.sami as _sm


class _FakeBS:
    """The DFXP and SAMI writers assemble their document on the contract stub of bs4 (harness/fakesoup.py): bs4 /
    lxml do not run under CrossHair's tracing (non-termination, TypeError in bs4's typing protocols), and the
    question here is about pycaption's own state and copies, not bs4's."""

    def __enter__(self):
        self.old = (_db.BeautifulSoup, _dx.BeautifulSoup, _sm.BeautifulSoup)
        _db.BeautifulSoup = _dx.BeautifulSoup = lambda markup, features=None: dfxp_soup()
        _sm.BeautifulSoup = lambda markup, features=None: sami_soup()
        self.sh = StableHash()
        self.sh.__enter__()

    def __exit__(self, *a):
        _db.BeautifulSoup, _dx.BeautifulSoup, _sm.BeautifulSoup = self.old
        self.sh.__exit__()


def _mk(w, dims, rel=True, fit=True):
    kw = dict(video_width=640, video_height=360) if dims else {}
    if w != 7:
        kw.update(relativize=rel, fit_to_screen=fit)
    if w == 0:
        return SRTWriter(**kw)
    if w == 1:
        return WebVTTWriter(**kw)
    if w == 2:
        return MicroDVDWriter(**kw)
    if w == 3:
        return SCCWriter(**kw)
    if w == 4:
        return SAMIWriter(**kw)
    if w == 5:
        return DFXPWriter(**kw)
    if w == 6:
        return SinglePositioningDFXPWriter(**kw)
    return LegacyDFXPWriter(**kw)


def _unchanged(w, dims, cs, rel=True, fit=True):
    before = snap_set(cs)
    with _FakeBS():
        try:
            _mk(w, dims, rel, fit).write(cs)
        except (RelativizationError, ValueError):
            pass  # documented refusals (absolute units without a video size / fit_to_screen on absolute units)
    return "" if snap_set(cs) == before else "input caption set changed by write()"


def _deterministic(w, dims, cs, other):
    with _FakeBS():
        return _deterministic2(w, dims, cs, other)


def _deterministic2(w, dims, cs, other):
    # first thing in the process/path: a writer writes ANOTHER set, then this one
    w2 = _mk(w, dims)
    try:
        w2.write(other)
    except (RelativizationError, ValueError):
        pass
    try:
        d = w2.write(cs)
    except (RelativizationError, ValueError):
        return ""  # refusal is not an output
    wr = _mk(w, dims)
    a = wr.write(cs)
    if a != d:
        return "output depends on what was written before"
    if wr.write(cs) != a:
        return "second write on the same writer differs"
    if _mk(w, dims).write(cs) != a:
        return "fresh writer differs"
    if w == 1:
        # semantic anchor for state shared by all writer objects: italic tags appear exactly where the set
        # being written defines italics (node spans; the document style s1 of this set has none)
        spans = 0
        for c in cs.get_captions("en"):
            for n in c.nodes:
                if n.type_ == 2 and n.start and n.content.get("italics"):
                    spans += 1
        if a.count("<i>") != spans:
            return "italic tags do not correspond to the styles of the set being written"
    return ""


def _sel3(i, a, b, c):
    if i == 0:
        return a
    if i == 1:
        return b
    return c


NAMES = ("srt", "vtt", "mdvd", "scc", "sami", "dfxp", "single", "legacy")

# --- one group of obligations per writer (generated text, kept in the file because CrossHair needs the source)

def unchanged_srt(dims: bool, lay: int, style: bool, ital: bool, rel: bool, fit: bool) -> str:
    """
    pre: 0 <= lay < 3
    post: _ == ""
    """
    cs = build_set(set_l=_sel3(lay, 0, 2, 0), lang_l=_sel3(lay, 0, 1, 0), cap_l=_sel3(lay, 0, 1, 4), node_l=_sel3(lay, 0, 2, 4),
                   style=2 if style else 1, set_styles=2, same_times=True, two_langs=True, italics=2 if ital else 1)
    return _unchanged(0, dims, cs, rel, fit)


def deterministic_srt(lay: bool, style: bool, ital: int, same: bool) -> str:
    """
    pre: 0 <= ital < 3
    post: _ == ""
    """
    cs = build_set(cap_l=1 if lay else 0, node_l=0, style=1 if style else 0, set_styles=1, italics=ital, same_times=same)
    # the set written before: another document that reuses the class name s1 with other rules, has an unclosed
    # span, two languages and layouts at every level (set, language, caption, node)
    other = build_set(set_l=5, lang_l=1, cap_l=2, node_l=1, italics=2, two_langs=True, style=1, set_styles=3)
    return _deterministic(0, True, cs, other)


def unchanged_full_srt(dims: bool, cap_l: int, node_l: int, style: int, same: bool, ital: bool, sst: int, rel: bool, fit: bool) -> str:
    """
    pre: 0 <= cap_l < 3 and 0 <= node_l < 3 and 0 <= style < 3 and 0 <= sst < 2 and rel == fit
    post: _ == ""
    """
    cs = build_set(set_l=_sel3(cap_l, 0, 2, 0), lang_l=_sel3(node_l, 0, 0, 1), cap_l=_sel3(cap_l, 0, 1, 4), node_l=_sel3(node_l, 0, 2, 4),
                   style=style, set_styles=sst, same_times=same, two_langs=True, italics=2 if ital else 1)
    return _unchanged(0, dims, cs, rel, fit)


def unchanged_vtt(dims: bool, lay: int, style: bool, ital: bool, rel: bool, fit: bool) -> str:
    """
    pre: 0 <= lay < 3
    post: _ == ""
    """
    cs = build_set(set_l=_sel3(lay, 0, 2, 0), lang_l=_sel3(lay, 0, 1, 0), cap_l=_sel3(lay, 0, 1, 4), node_l=_sel3(lay, 0, 2, 4),
                   style=2 if style else 1, set_styles=2, same_times=True, two_langs=True, italics=2 if ital else 1)
    return _unchanged(1, dims, cs, rel, fit)


def deterministic_vtt(lay: bool, style: bool, ital: int, same: bool) -> str:
    """
    pre: 0 <= ital < 3
    post: _ == ""
    """
    cs = build_set(cap_l=1 if lay else 0, node_l=0, style=1 if style else 0, set_styles=1, italics=ital, same_times=same)
    # the set written before: another document that reuses the class name s1 with other rules, has an unclosed
    # span, two languages and layouts at every level (set, language, caption, node)
    other = build_set(set_l=5, lang_l=1, cap_l=2, node_l=1, italics=2, two_langs=True, style=1, set_styles=3)
    return _deterministic(1, True, cs, other)


def unchanged_full_vtt(dims: bool, cap_l: int, node_l: int, style: int, same: bool, ital: bool, sst: int, rel: bool, fit: bool) -> str:
    """
    pre: 0 <= cap_l < 3 and 0 <= node_l < 3 and 0 <= style < 3 and 0 <= sst < 2 and rel == fit
    post: _ == ""
    """
    cs = build_set(set_l=_sel3(cap_l, 0, 2, 0), lang_l=_sel3(node_l, 0, 0, 1), cap_l=_sel3(cap_l, 0, 1, 4), node_l=_sel3(node_l, 0, 2, 4),
                   style=style, set_styles=sst, same_times=same, two_langs=True, italics=2 if ital else 1)
    return _unchanged(1, dims, cs, rel, fit)


def unchanged_mdvd(dims: bool, lay: int, style: bool, ital: bool, rel: bool, fit: bool) -> str:
    """
    pre: 0 <= lay < 3
    post: _ == ""
    """
    cs = build_set(set_l=_sel3(lay, 0, 2, 0), lang_l=_sel3(lay, 0, 1, 0), cap_l=_sel3(lay, 0, 1, 4), node_l=_sel3(lay, 0, 2, 4),
                   style=2 if style else 1, set_styles=2, same_times=True, two_langs=True, italics=2 if ital else 1)
    return _unchanged(2, dims, cs, rel, fit)


def deterministic_mdvd(lay: bool, style: bool, ital: int, same: bool) -> str:
    """
    pre: 0 <= ital < 3
    post: _ == ""
    """
    cs = build_set(cap_l=1 if lay else 0, node_l=0, style=1 if style else 0, set_styles=1, italics=ital, same_times=same)
    # the set written before: another document that reuses the class name s1 with other rules, has an unclosed
    # span, two languages and layouts at every level (set, language, caption, node)
    other = build_set(set_l=5, lang_l=1, cap_l=2, node_l=1, italics=2, two_langs=True, style=1, set_styles=3)
    return _deterministic(2, True, cs, other)


def unchanged_full_mdvd(dims: bool, cap_l: int, node_l: int, style: int, same: bool, ital: bool, sst: int, rel: bool, fit: bool) -> str:
    """
    pre: 0 <= cap_l < 3 and 0 <= node_l < 3 and 0 <= style < 3 and 0 <= sst < 2 and rel == fit
    post: _ == ""
    """
    cs = build_set(set_l=_sel3(cap_l, 0, 2, 0), lang_l=_sel3(node_l, 0, 0, 1), cap_l=_sel3(cap_l, 0, 1, 4), node_l=_sel3(node_l, 0, 2, 4),
                   style=style, set_styles=sst, same_times=same, two_langs=True, italics=2 if ital else 1)
    return _unchanged(2, dims, cs, rel, fit)


def unchanged_scc(dims: bool, lay: int, style: bool, ital: bool, rel: bool, fit: bool) -> str:
    """
    pre: 0 <= lay < 3
    post: _ == ""
    """
    cs = build_set(set_l=_sel3(lay, 0, 2, 0), lang_l=_sel3(lay, 0, 1, 0), cap_l=_sel3(lay, 0, 1, 4), node_l=_sel3(lay, 0, 2, 4),
                   style=2 if style else 1, set_styles=2, same_times=True, two_langs=True, italics=2 if ital else 1)
    return _unchanged(3, dims, cs, rel, fit)


def deterministic_scc(lay: bool, style: bool, ital: int, same: bool) -> str:
    """
    pre: 0 <= ital < 3
    post: _ == ""
    """
    cs = build_set(cap_l=1 if lay else 0, node_l=0, style=1 if style else 0, set_styles=1, italics=ital, same_times=same)
    # the set written before: another document that reuses the class name s1 with other rules, has an unclosed
    # span, two languages and layouts at every level (set, language, caption, node)
    other = build_set(set_l=5, lang_l=1, cap_l=2, node_l=1, italics=2, two_langs=True, style=1, set_styles=3)
    return _deterministic(3, True, cs, other)


def unchanged_full_scc(dims: bool, cap_l: int, node_l: int, style: int, same: bool, ital: bool, sst: int, rel: bool, fit: bool) -> str:
    """
    pre: 0 <= cap_l < 3 and 0 <= node_l < 3 and 0 <= style < 3 and 0 <= sst < 2 and rel == fit
    post: _ == ""
    """
    cs = build_set(set_l=_sel3(cap_l, 0, 2, 0), lang_l=_sel3(node_l, 0, 0, 1), cap_l=_sel3(cap_l, 0, 1, 4), node_l=_sel3(node_l, 0, 2, 4),
                   style=style, set_styles=sst, same_times=same, two_langs=True, italics=2 if ital else 1)
    return _unchanged(3, dims, cs, rel, fit)


def unchanged_sami(dims: bool, lay: int, style: bool, ital: bool, rel: bool, fit: bool) -> str:
    """
    pre: 0 <= lay < 3
    post: _ == ""
    """
    cs = build_set(set_l=_sel3(lay, 0, 2, 0), lang_l=_sel3(lay, 0, 1, 0), cap_l=_sel3(lay, 0, 1, 4), node_l=_sel3(lay, 0, 2, 4),
                   style=2 if style else 1, set_styles=2, same_times=True, two_langs=True, italics=2 if ital else 1)
    return _unchanged(4, dims, cs, rel, fit)


def deterministic_sami(lay: bool, style: bool, ital: int, same: bool) -> str:
    """
    pre: 0 <= ital < 3
    post: _ == ""
    """
    cs = build_set(cap_l=1 if lay else 0, node_l=0, style=1 if style else 0, set_styles=1, italics=ital, same_times=same)
    # the set written before: another document that reuses the class name s1 with other rules, has an unclosed
    # span, two languages and layouts at every level (set, language, caption, node)
    other = build_set(set_l=5, lang_l=1, cap_l=2, node_l=1, italics=2, two_langs=True, style=1, set_styles=3)
    return _deterministic(4, True, cs, other)


def unchanged_full_sami(dims: bool, cap_l: int, node_l: int, style: int, same: bool, ital: bool, sst: int, rel: bool, fit: bool) -> str:
    """
    pre: 0 <= cap_l < 3 and 0 <= node_l < 3 and 0 <= style < 3 and 0 <= sst < 2 and rel == fit
    post: _ == ""
    """
    cs = build_set(set_l=_sel3(cap_l, 0, 2, 0), lang_l=_sel3(node_l, 0, 0, 1), cap_l=_sel3(cap_l, 0, 1, 4), node_l=_sel3(node_l, 0, 2, 4),
                   style=style, set_styles=sst, same_times=same, two_langs=True, italics=2 if ital else 1)
    return _unchanged(4, dims, cs, rel, fit)


def unchanged_dfxp(dims: bool, lay: int, style: bool, ital: bool, rel: bool, fit: bool) -> str:
    """
    pre: 0 <= lay < 3
    post: _ == ""
    """
    cs = build_set(set_l=_sel3(lay, 0, 2, 0), lang_l=_sel3(lay, 0, 1, 0), cap_l=_sel3(lay, 0, 1, 4), node_l=_sel3(lay, 0, 2, 4),
                   style=2 if style else 1, set_styles=2, same_times=True, two_langs=True, italics=2 if ital else 1)
    return _unchanged(5, dims, cs, rel, fit)


def deterministic_dfxp(lay: bool, style: bool, ital: int, same: bool) -> str:
    """
    pre: 0 <= ital < 3
    post: _ == ""
    """
    cs = build_set(cap_l=1 if lay else 0, node_l=0, style=1 if style else 0, set_styles=1, italics=ital, same_times=same)
    # the set written before: another document that reuses the class name s1 with other rules, has an unclosed
    # span, two languages and layouts at every level (set, language, caption, node)
    other = build_set(set_l=5, lang_l=1, cap_l=2, node_l=1, italics=2, two_langs=True, style=1, set_styles=3)
    return _deterministic(5, True, cs, other)


def unchanged_full_dfxp(dims: bool, cap_l: int, node_l: int, style: int, same: bool, ital: bool, sst: int, rel: bool, fit: bool) -> str:
    """
    pre: 0 <= cap_l < 3 and 0 <= node_l < 3 and 0 <= style < 3 and 0 <= sst < 2 and rel == fit
    post: _ == ""
    """
    cs = build_set(set_l=_sel3(cap_l, 0, 2, 0), lang_l=_sel3(node_l, 0, 0, 1), cap_l=_sel3(cap_l, 0, 1, 4), node_l=_sel3(node_l, 0, 2, 4),
                   style=style, set_styles=sst, same_times=same, two_langs=True, italics=2 if ital else 1)
    return _unchanged(5, dims, cs, rel, fit)


def unchanged_single(dims: bool, lay: int, style: bool, ital: bool, rel: bool, fit: bool) -> str:
    """
    pre: 0 <= lay < 3
    post: _ == ""
    """
    cs = build_set(set_l=_sel3(lay, 0, 2, 0), lang_l=_sel3(lay, 0, 1, 0), cap_l=_sel3(lay, 0, 1, 4), node_l=_sel3(lay, 0, 2, 4),
                   style=2 if style else 1, set_styles=2, same_times=True, two_langs=True, italics=2 if ital else 1)
    return _unchanged(6, dims, cs, rel, fit)


def deterministic_single(lay: bool, style: bool, ital: int, same: bool) -> str:
    """
    pre: 0 <= ital < 3
    post: _ == ""
    """
    cs = build_set(cap_l=1 if lay else 0, node_l=0, style=1 if style else 0, set_styles=1, italics=ital, same_times=same)
    # the set written before: another document that reuses the class name s1 with other rules, has an unclosed
    # span, two languages and layouts at every level (set, language, caption, node)
    other = build_set(set_l=5, lang_l=1, cap_l=2, node_l=1, italics=2, two_langs=True, style=1, set_styles=3)
    return _deterministic(6, True, cs, other)


def unchanged_full_single(dims: bool, cap_l: int, node_l: int, style: int, same: bool, ital: bool, sst: int, rel: bool, fit: bool) -> str:
    """
    pre: 0 <= cap_l < 3 and 0 <= node_l < 3 and 0 <= style < 3 and 0 <= sst < 2 and rel == fit
    post: _ == ""
    """
    cs = build_set(set_l=_sel3(cap_l, 0, 2, 0), lang_l=_sel3(node_l, 0, 0, 1), cap_l=_sel3(cap_l, 0, 1, 4), node_l=_sel3(node_l, 0, 2, 4),
                   style=style, set_styles=sst, same_times=same, two_langs=True, italics=2 if ital else 1)
    return _unchanged(6, dims, cs, rel, fit)


def unchanged_legacy(dims: bool, lay: int, style: bool, ital: bool, rel: bool, fit: bool) -> str:
    """
    pre: 0 <= lay < 3
    post: _ == ""
    """
    cs = build_set(set_l=_sel3(lay, 0, 2, 0), lang_l=_sel3(lay, 0, 1, 0), cap_l=_sel3(lay, 0, 1, 4), node_l=_sel3(lay, 0, 2, 4),
                   style=2 if style else 1, set_styles=2, same_times=True, two_langs=True, italics=2 if ital else 1)
    return _unchanged(7, dims, cs, rel, fit)


def deterministic_legacy(lay: bool, style: bool, ital: int, same: bool) -> str:
    """
    pre: 0 <= ital < 3
    post: _ == ""
    """
    cs = build_set(cap_l=1 if lay else 0, node_l=0, style=1 if style else 0, set_styles=1, italics=ital, same_times=same)
    # the set written before: another document that reuses the class name s1 with other rules, has an unclosed
    # span, two languages and layouts at every level (set, language, caption, node)
    other = build_set(set_l=5, lang_l=1, cap_l=2, node_l=1, italics=2, two_langs=True, style=1, set_styles=3)
    return _deterministic(7, True, cs, other)


def unchanged_full_legacy(dims: bool, cap_l: int, node_l: int, style: int, same: bool, ital: bool, sst: int, rel: bool, fit: bool) -> str:
    """
    pre: 0 <= cap_l < 3 and 0 <= node_l < 3 and 0 <= style < 3 and 0 <= sst < 2 and rel == fit
    post: _ == ""
    """
    cs = build_set(set_l=_sel3(cap_l, 0, 2, 0), lang_l=_sel3(node_l, 0, 0, 1), cap_l=_sel3(cap_l, 0, 1, 4), node_l=_sel3(node_l, 0, 2, 4),
                   style=style, set_styles=sst, same_times=same, two_langs=True, italics=2 if ital else 1)
    return _unchanged(7, dims, cs, rel, fit)



# --- hash seeds: every set in the DFXP module iterates in a solver-chosen order (harness/ndset.py) -----------
def hashseed_dfxp(p0: int, p1: int, la: int, lb: int) -> str:
    """
    pre: 0 <= p0 <= 2 and 0 <= p1 <= 1 and 0 <= la < 3 and 0 <= lb < 3
    post: _ == ""
    """
    # any iteration order (p0, p1 pick the next element among the remaining ones) against insertion order
    from harness.ndset import nondet_module, PICKS
    nd, sites = nondet_module(_db)
    if sites == 0:
        return ""  # the module creates no set: nothing can depend on set order
    nd.BeautifulSoup = lambda markup, features=None: dfxp_soup()
    cs = build_set(cap_l=5, node_l=_sel3(la, 1, 2, 5), node_l2=_sel3(lb, 2, 1, 4), two_langs=True, italics=3)
    with StableHash():
        outs = []
        for picks in ([p0, p1], []):
            PICKS[0] = picks
            try:
                outs.append(nd.DFXPWriter(video_width=640, video_height=360).write(cs))
            finally:
                PICKS[0] = []
    return "" if outs[0] == outs[1] else "output depends on the iteration order of a set (hash seed)"


# --- public API replay (real bs4/lxml, no stubs) for the determinism obligations --------------------
def _public_det(w, lay, style, ital, same):
    cs = build_set(cap_l=1 if lay else 0, node_l=0, style=1 if style else 0, set_styles=1, italics=ital, same_times=same)
    other = build_set(cap_l=2, node_l=1, italics=2, two_langs=True, style=1, set_styles=1)
    return _deterministic2(w, True, cs, other)


def public_deterministic_sami(lay, style, ital, same):
    return _public_det(4, lay, style, ital, same)


def public_deterministic_dfxp(lay, style, ital, same):
    return _public_det(5, lay, style, ital, same)


def public_deterministic_single(lay, style, ital, same):
    return _public_det(6, lay, style, ital, same)


def public_deterministic_legacy(lay, style, ital, same):
    return _public_det(7, lay, style, ital, same)
