"""Contract stub of the small part of bs4 that SAMIWriter / DFXPWriter use while *assembling*
a document: new_tag / append / find / find_all / insert_after / insert_before / attrs / string.
It records what pycaption puts where, so that the harness can read the structure back without
going through bs4 (which realises symbolic values at its C boundary).
Wiring self-test: harness/selftest_fakesoup.py compares it with the real bs4 on fixture sets."""


class FTag:
    def __init__(self, name, attrs=None):
        self.name = name
        self.attrs = dict(attrs or {})
        self.contents = []
        self.parent = None
        self.string = None

    def get(self, k, d=None):
        return self.attrs.get(k, d)

    def __setitem__(self, k, v):
        self.attrs[k] = v

    def __getitem__(self, k):
        return self.attrs[k]

    def has_attr(self, k):
        return k in self.attrs

    def append(self, t):
        if isinstance(t, FTag):
            t.parent = self
        self.contents.append(t)

    def insert_after(self, t):
        p = self.parent
        t.parent = p
        p.contents.insert(p.contents.index(self) + 1, t)

    def insert_before(self, t):
        p = self.parent
        t.parent = p
        p.contents.insert(p.contents.index(self), t)

    def extract(self):
        if self.parent is not None:
            self.parent.contents = [c for c in self.parent.contents if c is not self]
            self.parent = None
        return self

    def _walk(self):
        for c in self.contents:
            if isinstance(c, FTag):
                yield c
                yield from c._walk()

    def find_all(self, name, attrs=None, **kw):
        out = []
        for t in self._walk():
            if t.name != name:
                continue
            ok = True
            for k, want in list((attrs or {}).items()) + list(kw.items()):
                have = t.attrs.get(k)
                if isinstance(want, int) and isinstance(have, int):
                    # (checked first: callable() on a symbolic int would make CrossHair realise it)
                    if not (have == want):
                        ok = False
                elif not isinstance(want, (int, str)) and callable(want):
                    if have is None or not want(have):
                        ok = False
                elif have is None:
                    ok = False
                elif isinstance(have, str) != isinstance(want, str):
                    # bs4 compares attribute values as text; only convert when the kinds differ
                    # (str() of a symbolic int would make CrossHair enumerate values)
                    if str(have) != str(want):
                        ok = False
                elif not (have == want):
                    ok = False
            if ok:
                out.append(t)
        return out

    findChildren = find_all

    def find(self, name, attrs=None, **kw):
        r = self.find_all(name, attrs, **kw)
        return r[0] if r else None

    findChild = find

    def __eq__(self, other):
        return isinstance(other, FTag) and self.name == other.name and self.attrs == other.attrs and \
            self.contents == other.contents and self.string == other.string

    def __ne__(self, other):
        return not self == other

    __hash__ = None


class FSoup(FTag):
    """document root; `skeleton` is a nested spec like ("sami", [("head", [("style", [])]), ("body", [])])"""

    def __init__(self, skeleton):
        super().__init__("[document]")
        self._build(self, skeleton)

    def _build(self, parent, spec):
        name, children = spec
        t = FTag(name)
        parent.append(t)
        for c in children:
            self._build(t, c)

    def new_tag(self, name, **attrs):
        return FTag(name, attrs)

    @property
    def body(self):
        return self.find("body")

    def prettify(self, formatter=None):
        """verbatim serialisation of what was assembled (attribute values and strings unescaped,
        as bs4 does with formatter=None)"""
        out = []

        def walk(t, depth):
            attrs = "".join(f' {k}="{v}"' for k, v in t.attrs.items())
            out.append(" " * depth + f"<{t.name}{attrs}>")
            if t.string is not None:
                out.append(" " * (depth + 1) + str(t.string))
            for c in t.contents:
                if isinstance(c, FTag):
                    walk(c, depth + 1)
                else:
                    out.append(" " * (depth + 1) + str(c))
            out.append(" " * depth + f"</{t.name}>")
        for c in self.contents:
            walk(c, 0)
        return "\n".join(out)


def sami_soup():
    return FSoup(("sami", [("head", [("style", [])]), ("body", [])]))


def dfxp_soup():
    return FSoup(("tt", [("head", [("styling", []), ("layout", [])]), ("body", [])]))
