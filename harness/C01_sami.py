"""C01 - SAMI: SAMIReader._translate_lang on a contract stub of the parsed tree.

Real code executed: SAMIReader._translate_lang (start = int(float(start))*1000, back-filling of
end times, four-second rule), Caption.  Stubbed by contract: the bs4 tree (`select`, `parent.get`,
`get_text`, `attrs`, `contents`) and the per-node text conversion (C04's business).

Symbolic: the sync instants (milliseconds, strictly increasing) and the shape of each sync
(one or two paragraphs of the language, each with text or empty = clear marker).
Oracle from the statement: every non-empty paragraph is one cue starting at its sync; it lasts
until the next sync of its language, the cues of the last sync last four seconds.
"""
import pycaption.sami as sm
from pycaption.sami import SAMIReader
from pycaption.base import CaptionNode


class StartAttr:
    """the `start` attribute text of a SYNC: a non-empty numeral"""

    def __init__(self, ms):
        self.ms = ms

    def __float__(self):  # concrete replays only
        return float(self.ms)

    def __bool__(self):
        return True


class Sync:
    def __init__(self, ms):
        self.ms = ms

    def get(self, k, d=None):
        return StartAttr(self.ms) if k == "start" else d


class P:
    name = "p"

    def __init__(self, sync, text):
        self.parent = sync
        self.text = text
        self.attrs = {}
        self.contents = []

    def get_text(self):
        return self.text


class Soup:
    def __init__(self, ps):
        self.ps = ps

    def select(self, selector):
        return list(self.ps)


class R(SAMIReader):
    def _translate_tag(self, tag, inherit_from=None):
        self.line.append(CaptionNode.create_text(tag.text, inherit_from))


def _run(times, shapes):
    """shapes[i] in 0..5: 0 = one text p; 1 = one empty p; 2 = text,text; 3 = text,empty; 4 = empty,text"""
    ps = []
    want = []  # (start_ms, sync index, text)
    for i, (t, sh) in enumerate(zip(times, shapes)):
        s = Sync(t)
        kinds = {0: "T", 1: "E", 2: "TT", 3: "TE", 4: "ET"}[sh]
        for j, k in enumerate(kinds):
            text = f"c{i}{j}" if k == "T" else " "
            ps.append(P(s, text))
            if k == "T":
                want.append((t, i, text))
    # stub of the builtin: float(<numeral text>) is the numeral's value (keeps the instant an int;
    # a symbolic float would be realised by CrossHair).  Restored afterwards.
    sm.float = lambda a: a.ms if isinstance(a, StartAttr) else float(a)
    try:
        caps = R()._translate_lang("en", Soup(ps), None)
    finally:
        del sm.float
    if len(caps) != len(want):
        return "count"
    for c, (t, i, text) in zip(caps, want):
        if c.start != t * 1000:
            return "start"
        if c.get_text() != text:
            return "text"
        if i + 1 < len(times):
            if c.end != times[i + 1] * 1000:
                return "end"
        elif c.end != (t + 4000) * 1000:
            return "last end"
    return ""


def sami_2(t0: int, t1: int, s0: int, s1: int) -> str:
    """
    pre: 0 <= t0 < t1 < 360000000 and 0 <= s0 < 5 and 0 <= s1 < 5
    post: _ == ""
    """
    return _run([t0, t1], [s0, s1])


def sami_3(t0: int, t1: int, t2: int, s0: int, s1: int, s2: int) -> str:
    """
    pre: 0 <= t0 < t1 < t2 < 360000000 and 0 <= s0 < 5 and 0 <= s1 < 5 and 0 <= s2 < 5
    post: _ == ""
    """
    return _run([t0, t1, t2], [s0, s1, s2])


def sami_3_single(t0: int, t1: int, t2: int, s0: int, s1: int, s2: int) -> str:
    """
    pre: 0 <= t0 < t1 < t2 < 360000000 and 0 <= s0 < 2 and 0 <= s1 < 2 and 0 <= s2 < 2
    post: _ == ""
    """
    return _run([t0, t1, t2], [s0, s1, s2])


# --- replay through the public API ------------------------------------------------
def _public(times, shapes):
    """Same scenario as a real SAMI document read by SAMIReader().read; same oracle."""
    body = ""
    want = []
    for i, (t, sh) in enumerate(zip(times, shapes)):
        kinds = {0: "T", 1: "E", 2: "TT", 3: "TE", 4: "ET"}[sh]
        body += f"<SYNC start={t}>"
        for j, k in enumerate(kinds):
            text = f"c{i}{j}" if k == "T" else "&nbsp;"
            body += f"<P class=ENCC>{text}</P>"
            if k == "T":
                want.append((t, i, text))
        body += "</SYNC>\n"
    doc = ('<SAMI><HEAD><STYLE TYPE="text/css"><!-- .ENCC {Name: English; lang: en-US;} --></STYLE></HEAD><BODY>\n'
           + body + "</BODY></SAMI>")
    caps = SAMIReader().read(doc).get_captions("en-US")
    if len(caps) != len(want):
        return f"count {len(caps)} != {len(want)}"
    for c, (t, i, text) in zip(caps, want):
        if c.start != t * 1000:
            return f"start {c.start}"
        if i + 1 < len(times):
            if c.end != times[i + 1] * 1000:
                return f"end {c.end} of cue {text} (next sync at {times[i + 1]} ms)"
        elif c.end != (t + 4000) * 1000:
            return f"last end {c.end} of cue {text} at {t} ms"
    return ""


def public_sami_2(t0, t1, s0, s1):
    return _public([t0, t1], [s0, s1])


def public_sami_3(t0, t1, t2, s0, s1, s2):
    return _public([t0, t1, t2], [s0, s1, s2])


public_sami_3_single = public_sami_3
