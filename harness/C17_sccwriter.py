"""C17 - SCC output is structurally valid and re-reads to the same words.

Real code: public SCCWriter.write (PASS 1-3), _text_to_code, _layout_line (textwrap.fill), _print_character, _maybe_align,
_maybe_space, _format_timestamp, tables CHARACTER_TO_CODE / PAC_HIGH_BYTE_BY_ROW / PAC_LOW_BYTE_BY_ROW_RESTRICTED; then the
public SCCReader.read of that output.
Oracle: vlib/ref608.py (parity, PAC rows, basic character table) and the statement: header, timecoded lines of four-hex-digit
words with odd parity in every byte, rows 1-15, rows of at most 32 columns broken only at spaces (longer words are split),
same words in the same order on re-reading, one caption per input caption, timecodes non-negative and non-decreasing,
every caption visible within three frames of its start.
"""
from fractions import Fraction
from pycaption import SCCWriter, SCCReader
from pycaption.base import Caption, CaptionNode, CaptionSet, CaptionList
from vlib import ref608 as R

FRAME = Fraction(1001, 30) * 1000


def _parse(out):
    """(error or None, [(timecode, [words])])"""
    lines = out.split("\n")
    if lines[0] != "Scenarist_SCC V1.0":
        return "header", []
    res = []
    for ln in lines[1:]:
        if ln == "":
            continue
        if "\t" not in ln:
            return "line without a tab", res
        tc, rest = ln.split("\t", 1)
        if len(tc) != 11 or tc[2] != ":" or tc[5] != ":" or tc[8] not in ":;" or not (tc[0:2] + tc[3:5] + tc[6:8] + tc[9:11]).isdigit():
            return "timecode", res
        ws = [w for w in rest.split(" ") if w != ""]
        for w in ws:
            if len(w) != 4 or any(ch not in "0123456789abcdef" for ch in w):
                return "word is not four hex digits", res
            if not R.parity_ok(w):
                return "byte without odd parity", res
        res.append((tc, ws))
    return None, res


def _tc_frames(tc):
    return ((int(tc[0:2]) * 60 + int(tc[3:5])) * 60 + int(tc[6:8])) * 30 + int(tc[9:11])


def _rows_of(words):
    """decode one caption's words with the reference tables: [(row, text)]"""
    rows = []
    last = None
    for w in words:
        k = R.classify(w)
        if k != "chars" and w == last:
            last = None
            continue
        last = w if k != "chars" else None
        if k == "pac":
            row, col, it, un = R.decode_pac(w)
            rows.append([row, col, ""])
        elif k == "chars":
            b1, b2 = R.strip(w)
            for b in (b1, b2):
                if b >= 0x20:
                    if not rows:
                        return None
                    rows[-1][2] += R.BASIC[b]
        elif k in ("special", "extended"):
            return None
    return rows


def _cs(texts, starts, dur=1500000):
    return CaptionSet({"en-US": CaptionList([Caption(s, s + dur, [CaptionNode.create_text(t)]) for t, s in zip(texts, starts)])})


WORDS = ("a", "it", "cat", "word", "hello", "caption", "x" * 31, "y" * 32, "z" * 33, "w" * 40)


def _word(i):
    if i == 0:
        return WORDS[0]
    if i == 1:
        return WORDS[1]
    if i == 2:
        return WORDS[2]
    if i == 3:
        return WORDS[3]
    if i == 4:
        return WORDS[4]
    if i == 5:
        return WORDS[5]
    if i == 6:
        return WORDS[6]
    if i == 7:
        return WORDS[7]
    if i == 8:
        return WORDS[8]
    return WORDS[9]


def _structure(text):
    out = SCCWriter().write(_cs([text], [20000000]))
    err, lines = _parse(out)
    if err:
        return err
    rows = _rows_of(lines[0][1])
    if rows is None:
        return "unexpected code in the output"
    for row, col, t in rows:
        if not (1 <= row <= 15):
            return "row outside 1-15"
        if col + len(t) > 32:
            return "row longer than 32 columns"
    # wrapping: rows re-joined give the words back; a row break is at a space unless the word is longer than 32
    src_words = text.split()
    got_words = " ".join(t for _, _, t in rows).split()
    k = 0
    rebuilt = []
    for w in src_words:
        acc = ""
        while acc != w:
            if k >= len(got_words) or not w.startswith(acc + got_words[k]):
                return "words changed by the layout"
            acc += got_words[k]
            k += 1
        if acc != w:
            return "words changed by the layout"
        if len(w) <= 32 and acc != w:
            return "a word that fits a row was split"
        rebuilt.append(acc)
    if k != len(got_words):
        return "extra text"
    for (r1, _, _), (r2, _, _) in zip(rows, rows[1:]):
        if r2 != r1 + 1:
            return "rows are not consecutive"
    if rows and rows[-1][0] != 15:
        return "last row is not the bottom row"
    # the reader accepts the writer's own output (rows of up to 32 columns) and returns the same characters
    try:
        back = SCCReader().read(out).get_captions("en-US")
    except Exception as e:
        return "the writer's output is refused by the reader: " + type(e).__name__
    if len(back) != 1:
        return "one caption per caption"
    if "".join(back[0].get_text().split()) != "".join(text.split()):
        return "characters changed in write + read"
    return ""


def layout3(i: int, j: int, k: bool) -> str:
    """
    pre: 0 <= i < 10 and 0 <= j < 10
    post: _ == ""
    """
    return _structure(_word(i) + " " + _word(j) + " " + (_word(6) if k else _word(4)))


def layout_long(i: int, j: int, n: int) -> str:
    """
    pre: 0 <= i < 10 and 0 <= j < 6 and 2 <= n <= 5
    post: _ == ""
    """
    nn = 2 if n == 2 else (3 if n == 3 else (4 if n == 4 else 5))
    return _structure(" ".join([_word(i), _word(j)] * nn))


def charset(c: int, pos: int) -> str:
    """
    pre: 0x20 <= c <= 0x7E and 0 <= pos <= 2
    post: _ == ""
    """
    ch = R.BASIC[c]
    text = ("ab" if pos == 0 else "a" if pos == 1 else "") + ch + "cd"
    if ch == " " or text.strip() != text:
        return ""
    out = SCCWriter().write(_cs([text], [20000000]))
    err, lines = _parse(out)
    if err:
        return err
    rows = _rows_of(lines[0][1])
    if rows is None:
        # characters outside pycaption's basic table are sent as special/extended codes: decode with the reader instead
        rows = []
    back = SCCReader().read(out).get_captions("en-US")
    if len(back) != 1:
        return "one caption per caption"
    return "" if back[0].get_text() == text else "character changed in write + read"


def reread2(i: int, j: int, gap: int, two_lines: bool) -> str:
    """
    pre: 0 <= i < 4 and 0 <= j < 4 and 0 <= gap <= 7
    post: _ == ""
    """
    t1 = _word(i) + " one"
    t2 = _word(j) + " two"
    # gaps down to 0: the first cue may end inside the second one's loading time (its erase then rides on the next line)
    g = 3000000 if gap == 0 else (1600000 if gap == 1 else (1000000 if gap == 2 else (700000 if gap == 3 else (
        400000 if gap == 4 else (200000 if gap == 5 else (100000 if gap == 6 else 0))))))
    n1 = [CaptionNode.create_text(t1)] + ([CaptionNode.create_break(), CaptionNode.create_text("line two")] if two_lines else [])
    cs = CaptionSet({"en-US": CaptionList([Caption(20000000, 21500000, n1), Caption(21500000 + g, 23000000 + g, [CaptionNode.create_text(t2)])])})
    out = SCCWriter().write(cs)
    err, lines = _parse(out)
    if err:
        return err
    prev = -1
    for tc, ws in lines:
        f = _tc_frames(tc)
        if f < prev:
            return "timecodes decrease"
        prev = f
    back = SCCReader().read(out).get_captions("en-US")
    if len(back) != 2:
        return "one caption per caption"
    want1 = t1 + ("\nline two" if two_lines else "")
    if back[0].get_text() != want1 or back[1].get_text() != t2:
        return "words changed in write + read"
    for b, s in zip(back, (20000000, 21500000 + g)):
        if abs(Fraction(b.start) - s) > 3 * FRAME:
            return "caption not visible within three frames of its start"
    return ""


def single_caption_start(i: int, s: int) -> str:
    """
    pre: 0 <= i < 6 and 0 <= s <= 3
    post: _ == ""
    """
    start = 5000000 if s == 0 else (20000000 if s == 1 else (3600000000 if s == 2 else 86000000000))
    out = SCCWriter().write(_cs([_word(i) + " text"], [start]))
    err, lines = _parse(out)
    if err:
        return err
    back = SCCReader().read(out).get_captions("en-US")
    if len(back) != 1:
        return "one caption per caption"
    return "" if abs(Fraction(back[0].start) - start) <= 3 * FRAME else "caption not visible within three frames of its start"
