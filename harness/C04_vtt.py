"""C04 - WebVTT cue text: public WebVTTReader.read with a symbolic cue text line.

Oracle: reference display text per the statement - entities decoded exactly once left to right,
<v Name> -> 'Name: ', c/i/b/u/ruby/rt/lang/timestamp tags (start or end, with classes or
annotation) vanish, every other <...> stays literal.  Equality up to outer whitespace.
Domain: every '<' is closed by a later '>' (unterminated tags are not covered by the statement).
"""
from pycaption import WebVTTReader
from harness.ref_text import printable, text_of

ENT = (("&amp;", "&"), ("&lt;", "<"), ("&gt;", ">"), ("&nbsp;", "\u00a0"), ("&lrm;", "\u200e"), ("&rlm;", "\u200f"))
KNOWN = ("c", "i", "b", "u", "ruby", "rt", "lang")


def _is_ts(inner):
    # [H+:]MM:SS.mmm
    parts = inner.split(".")
    if len(parts) != 2 or len(parts[1]) != 3 or not parts[1].isdigit():
        return False
    f = parts[0].split(":")
    if len(f) not in (2, 3):
        return False
    for x in f:
        if not x.isdigit():
            return False
    return len(f[-1]) == 2 and len(f[-2]) == 2


def display(s):
    """(in_domain, displayed text)"""
    out = ""
    i = 0
    n = len(s)
    while i < n:
        c = s[i]
        if c == "&":
            hit = False
            for ent, ch in ENT:
                if s.startswith(ent, i):
                    out += ch
                    i += len(ent)
                    hit = True
                    break
            if not hit:
                out += "&"
                i += 1
        elif c == "<":
            j = s.find(">", i)
            if j < 0:
                return False, out
            inner = s[i + 1:j]
            if "<" in inner or "&" in inner:
                return False, out  # nested '<' or references inside a tag: not covered
            body = inner[1:] if inner.startswith("/") else inner
            name = body
            for stop in (" ", ".", "\t"):
                k = name.find(stop)
                if k >= 0:
                    name = name[:k]
            head = body
            k = head.find(" ")
            if k >= 0:
                head = head[:k]
            k = head.find("\t")
            if k >= 0:
                head = head[:k]
            if (name == "v" or name in KNOWN) and (head.endswith(".") or ".." in head):
                return False, out  # empty class name: malformed tag, outside the statement
            if _is_ts(inner):
                pass
            elif name == "v":
                k = body.find(" ")
                if k >= 0 and not inner.startswith("/"):
                    out += body[k + 1:] + ": "
            elif name in KNOWN:
                pass
            else:
                out += s[i:j + 1]
            i = j + 1
        else:
            out += c
            i += 1
    return True, out


def _read(line):
    doc = "WEBVTT\n\n00:01.000 --> 00:02.000\nfirst\n" + line + "\n\n00:03.000 --> 00:04.000\ntail\n"
    caps = WebVTTReader().read(doc).get_captions("en-US")
    if len(caps) != 2:
        return None
    return caps[0].get_text()


def _check(line):
    ok, want = display(line)
    if not ok or want.strip() == "" or line.strip() == "" or "-->" in line:
        return ""  # outside the domain (cue text cannot contain the arrow; blank line ends the cue)
    got = _read(line)
    if got is None:
        return "cue count"
    exp = "first\n" + want.strip()
    return "" if got == exp else "text differs"


def vtt_read_text3(cps: list[int]) -> str:
    """
    pre: printable(cps, 1, 3)
    post: _ == ""
    """
    return _check(text_of(cps))


def vtt_read_amp(cps: list[int]) -> str:
    """
    pre: printable(cps, 3, 3)
    post: _ == ""
    """
    return _check("a&" + text_of(cps) + ";b")


def vtt_read_tag2(cps: list[int], close: bool) -> str:
    """
    pre: printable(cps, 1, 2)
    post: _ == ""
    """
    return _check("x<" + ("/" if close else "") + text_of(cps) + ">y")


def vtt_read_tag_ann(cps: list[int]) -> str:
    """
    pre: printable(cps, 1, 2)
    post: _ == ""
    """
    return _check("x<" + text_of(cps) + " Ann>y</v>")


def vtt_read_voice_classes(n: int, c: int) -> str:
    """
    pre: 0 <= n <= 3 and ((97 <= c <= 122) or (48 <= c <= 57) or c == 95)
    post: _ == ""
    """
    # <v.c1.c2.c3 Ann>: a voice tag with 0-3 classes keeps its annotation as the 'Ann: ' prefix
    tag = "<v"
    if n >= 1:
        tag += "." + chr(c) + "z"
    if n >= 2:
        tag += ".loud"
    if n >= 3:
        tag += ".x_1"
    return _check("x" + tag + " Ann>y</v>")


def vtt_read_timestamp_tag(hours: int, k: int, twice: bool) -> str:
    """
    pre: 0 <= hours <= 2 and 0 <= k <= 2
    post: _ == ""
    """
    # inline cue timestamp tags <mm:ss.ttt>, <hh:mm:ss.ttt>, <hhh:mm:ss.ttt> vanish from the text
    body = "00:05.000" if k == 0 else ("59:59.999" if k == 1 else "07:30.250")
    tag = "<" + ("" if hours == 0 else ("01:" if hours == 1 else "123:")) + body + ">"
    return _check("It " + tag + "will " + (tag if twice else "") + "x")
