"""C04 - DFXP and SAMI text leaves: the real per-node converters on a text leaf whose content is a
symbolic string (the module's NavigableString name is rebound to the symbolic string type for the
call; bs4's own leaf type is a str subclass CrossHair cannot carry).

Real code: DFXPReader._convert_tag_to_node, SAMIReader._translate_tag (text branch, indentation regex).
Oracle from the statement: the words of the leaf are all kept ("text wrapped over several source
lines keeps all of its words"); equality up to collapsing whitespace runs.  A whitespace-only leaf may
be dropped.  Entity decoding happened in the parser (contract) - the leaf holds decoded characters.
"""
import pycaption.dfxp.base as db
import pycaption.sami as sm
from harness.ref_text import text_of


def _dom(cps, lo, hi):
    if not (lo <= len(cps) <= hi):
        return False
    ok = True
    for c in cps:
        ok = ok & (((32 <= c) & (c <= 126)) | (c == 10) | ((160 <= c) & (c <= 767)))
    return ok


def _collapse(s):
    return " ".join(s.split())


def _dfxp_leaf(s):
    r = db.DFXPReader()
    r.nodes = []
    old = db.NavigableString
    db.NavigableString = type(s)
    try:
        s.layout_info = None
        r._convert_tag_to_node(s)
    finally:
        db.NavigableString = old
    return [n.content for n in r.nodes]


def _sami_leaf(s):
    r = sm.SAMIReader()
    r.line = []
    old = sm.NavigableString
    sm.NavigableString = type(s)
    try:
        r._translate_tag(s, None)
    finally:
        sm.NavigableString = old
    return [n.content for n in r.line]


def _check(parts, s):
    want = _collapse(s)
    if want == "":
        if not all(_collapse(p) == "" for p in parts):
            return "text from nothing"
        if s != "" and "\n" not in s and not (len(parts) == 1 and parts[0] != ""):
            # blanks between two inline elements on one source line separate words: they must survive
            return "inter-element space lost"
        return ""
    if len(parts) != 1:
        return "node count"
    return "" if _collapse(parts[0]) == want else "words lost or changed"


def dfxp_leaf3(cps: list[int]) -> str:
    """
    pre: _dom(cps, 1, 3)
    post: _ == ""
    """
    s = text_of(cps)
    return _check(_dfxp_leaf(s), s)


def dfxp_leaf_wrapped(a: list[int], b: list[int], ind: int) -> str:
    """
    pre: _dom(a, 1, 2) and _dom(b, 1, 2) and 0 <= ind <= 2
    post: _ == ""
    """
    # "\n  foo\n  bar\n": a text node wrapped over two source lines with indentation
    s = "\n" + " " * ind + text_of(a) + "\n" + " " * ind + text_of(b) + "\n" + " " * ind
    return _check(_dfxp_leaf(s), s)


def sami_leaf3(cps: list[int]) -> str:
    """
    pre: _dom(cps, 1, 3)
    post: _ == ""
    """
    s = text_of(cps)
    return _check(_sami_leaf(s), s)


def sami_leaf_wrapped(a: list[int], b: list[int], ind: int) -> str:
    """
    pre: _dom(a, 1, 2) and _dom(b, 1, 2) and 0 <= ind <= 2
    post: _ == ""
    """
    s = "\n" + " " * ind + text_of(a) + "\n" + " " * ind + text_of(b) + "\n" + " " * ind
    return _check(_sami_leaf(s), s)


def dfxp_leaf_wrapped_q(a: list[int], b: list[int], ind: bool) -> str:
    """
    pre: _dom(a, 1, 1) and _dom(b, 1, 1)
    post: _ == ""
    """
    i = 2 if ind else 0
    s = "\n" + " " * i + text_of(a) + "\n" + " " * i + text_of(b) + "\n" + " " * i
    return _check(_dfxp_leaf(s), s)


def sami_leaf_wrapped_q(a: list[int], b: list[int], ind: bool) -> str:
    """
    pre: _dom(a, 1, 1) and _dom(b, 1, 1)
    post: _ == ""
    """
    i = 2 if ind else 0
    s = "\n" + " " * i + text_of(a) + "\n" + " " * i + text_of(b) + "\n" + " " * i
    return _check(_sami_leaf(s), s)


# --- public API replays --------------------------------------------------------------
def _public_dfxp(s):
    from xml.sax.saxutils import escape
    from pycaption.dfxp import DFXPReader
    import warnings
    warnings.simplefilter("ignore")
    doc = ('<?xml version="1.0" encoding="utf-8"?><tt xml:lang="en" xmlns="http://www.w3.org/ns/ttml"><body><div>'
           '<p begin="1s" end="2s">' + escape(s) + '</p></div></body></tt>')
    if _collapse(s) == "":
        if s != "" and "\n" not in s:
            doc = doc.replace('<p begin="1s" end="2s">', '<p begin="1s" end="2s"><span tts:fontStyle="italic">a</span>').replace('</p>', '<span tts:fontStyle="italic">b</span></p>')
            got = DFXPReader().read(doc).get_captions("en")[0].get_text()
            return "" if got == "a b" else f"'a</span>{s}<span>b' read as {got!r}"
        return ""
    caps = DFXPReader().read(doc).get_captions("en")
    got = _collapse(caps[0].get_text()) if caps else ""
    return "" if got == _collapse(s) else f"read {got!r}, authored {_collapse(s)!r}"


def _public_sami(s):
    from xml.sax.saxutils import escape
    from pycaption import SAMIReader
    doc = ('<SAMI><HEAD><STYLE TYPE="text/css"><!-- .ENCC {Name: English; lang: en-US;} --></STYLE></HEAD><BODY>'
           '<SYNC start=1000><P class=ENCC>' + escape(s) + '</P></SYNC></BODY></SAMI>')
    if _collapse(s) == "":
        return ""
    caps = SAMIReader().read(doc).get_captions("en-US")
    got = _collapse(caps[0].get_text()) if caps else ""
    return "" if got == _collapse(s) else f"read {got!r}, authored {_collapse(s)!r}"


def public_dfxp_leaf3(cps):
    return _public_dfxp(text_of(cps))


def public_dfxp_leaf_wrapped(a, b, ind):
    return _public_dfxp("\n" + " " * ind + text_of(a) + "\n" + " " * ind + text_of(b) + "\n" + " " * ind)


def public_sami_leaf3(cps):
    return _public_sami(text_of(cps))


def public_sami_leaf_wrapped(a, b, ind):
    return _public_sami("\n" + " " * ind + text_of(a) + "\n" + " " * ind + text_of(b) + "\n" + " " * ind)


def public_dfxp_leaf_wrapped_q(a, b, ind):
    i = 2 if ind else 0
    return _public_dfxp("\n" + " " * i + text_of(a) + "\n" + " " * i + text_of(b) + "\n" + " " * i)


def public_sami_leaf_wrapped_q(a, b, ind):
    i = 2 if ind else 0
    return _public_sami("\n" + " " * i + text_of(a) + "\n" + " " * i + text_of(b) + "\n" + " " * i)


# --- a source line wrap between an inline element and text (known finding C04-wrap-next-to-inline) ---------------
def wrap_next_to_inline(sami: bool, after: bool, ind: int) -> str:
    """
    pre: 0 <= ind <= 2
    post: _ == ""
    """
    import warnings
    warnings.simplefilter("ignore")
    from harness.C11_styles import SAMI_DOC, DFXP_DOC, _bs_html
    from pycaption import SAMIReader
    from pycaption.dfxp import DFXPReader
    pad = "" if ind == 0 else (" " if ind == 1 else "   ")
    el = "<i>a</i>" if sami else '<span tts:fontStyle="italic">a</span>'
    frag = (el + "\n" + pad + "b c") if after else ("b c\n" + pad + el)
    want = "a b c" if after else "b c a"
    if sami:
        saved = sm.BeautifulSoup
        sm.BeautifulSoup = _bs_html
        try:
            caps = SAMIReader().read(SAMI_DOC % frag).get_captions("en-US")
        finally:
            sm.BeautifulSoup = saved
    else:
        caps = DFXPReader().read(DFXP_DOC % frag).get_captions("en")
    got = _collapse(caps[0].get_text()) if caps else ""
    return "" if got == want else "words on both sides of a source line wrap next to an inline element were joined"


def public_wrap_next_to_inline(sami, after, ind):
    from harness.C11_styles import SAMI_DOC, DFXP_DOC
    from pycaption import SAMIReader
    from pycaption.dfxp import DFXPReader
    import warnings
    warnings.simplefilter("ignore")
    pad = " " * (0 if ind == 0 else (1 if ind == 1 else 3))
    el = "<i>a</i>" if sami else '<span tts:fontStyle="italic">a</span>'
    frag = (el + "\n" + pad + "b c") if after else ("b c\n" + pad + el)
    caps = (SAMIReader().read(SAMI_DOC % frag).get_captions("en-US") if sami else DFXPReader().read(DFXP_DOC % frag).get_captions("en"))
    got = _collapse(caps[0].get_text())
    return "" if got == ("a b c" if after else "b c a") else f"read {got!r}"
