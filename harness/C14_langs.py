"""C14 - languages stay separate and ordered.

Real code: SAMIWriter._recreate_p_tag/_recreate_sync/_find_closest_sync/_recreate_blank_tag/_recreate_p_lang on the
contract stub of bs4; DFXPReader.read (div loop, xml:lang fallbacks) behind its parser factory hook;
WebVTTWriter.write(lang=), DFXPWriter.write(force=), LegacyDFXPWriter._force_language; SAMIParser._find_lang.
"""
import pycaption.sami as sm
import pycaption.dfxp.base as db
from pycaption.sami import SAMIWriter, SAMIParser
from pycaption.dfxp import DFXPReader, DFXPWriter
from pycaption.dfxp.extras import LegacyDFXPWriter
from pycaption import WebVTTWriter
from pycaption.base import Caption, CaptionNode, CaptionSet, CaptionList
from harness.fakesoup import sami_soup, dfxp_soup
from harness.csbuild import StableHash


def _sami_write(langs):
    """langs: list of (code, [a0, b0, a1, b1, ...]) - the per-caption part of SAMIWriter.write"""
    w = SAMIWriter()
    w._recreate_text = lambda nodes: nodes[0].content
    soup = sami_soup()
    cs = CaptionSet({code: CaptionList() for code, _ in langs})
    primary = langs[0][0]
    for code, times in langs:
        w.last_time = None
        for i in range(0, len(times), 2):
            c = Caption(times[i], times[i + 1], [CaptionNode.create_text(f"{code}{i // 2}")])
            soup = w._recreate_p_tag(c, soup, code, primary, cs)
    out = []
    for t in soup.body.contents:
        if t.name == "sync":
            out.append((t.attrs.get("start"), [(p.attrs.get("class"), p.string) for p in t.contents]))
    return out


def _check_sami(syncs, langs):
    prev = None
    for start, ps in syncs:
        if prev is not None and start < prev:
            return "sync blocks out of time order"
        prev = start
        for cls, text in ps:
            if text != "&nbsp;" and not text.startswith(cls):
                return "paragraph under another language's class"
    for code, times in langs:
        for i in range(0, len(times), 2):
            name = f"{code}{i // 2}"
            hits = [start for start, ps in syncs for cls, text in ps if text == name]
            if len(hits) != 1:
                return "cue lost or duplicated"
            if hits[0] != times[i] // 1000:
                return "cue in the sync block of another time"
            if not any(cls == code for start, ps in syncs for cls, text in ps if text == name):
                return "cue under another language"
    return ""


def sami_secondary_symbolic(c0: int, d0: int) -> str:
    """
    pre: 0 <= c0 <= d0 <= 6000
    post: _ == ""
    """
    # primary language fixed at (1 s, 2 s), (3 s, 4 s); the secondary cue's instants (ms) are arbitrary:
    # the solver explores every interleaving / coincidence class with the primary syncs
    langs = [("en", [1000000, 2000000, 3000000, 4000000]), ("fr", [c0 * 1000, d0 * 1000])]
    return _check_sami(_sami_write(langs), langs)


def sami_secondary_two_cues(c0: int, d0: int, c1: int, d1: int) -> str:
    """
    pre: 0 <= c0 <= d0 <= c1 <= d1 <= 5000
    post: _ == ""
    """
    langs = [("en", [1000000, 2000000, 3000000, 4000000]), ("fr", [c0 * 1000, d0 * 1000, c1 * 1000, d1 * 1000])]
    return _check_sami(_sami_write(langs), langs)


def sami_primary_symbolic(a0: int, b0: int, a1: int, b1: int) -> str:
    """
    pre: 0 <= a0 <= b0 <= a1 <= b1 <= 6000
    post: _ == ""
    """
    langs = [("en", [a0 * 1000, b0 * 1000, a1 * 1000, b1 * 1000]), ("fr", [2500000, 3500000])]
    return _check_sami(_sami_write(langs), langs)


def sami_three_langs(c0: int, e0: int) -> str:
    """
    pre: 0 <= c0 <= 5000 and 0 <= e0 <= 5000
    post: _ == ""
    """
    langs = [("en", [1000000, 2000000, 3000000, 4000000]), ("fr", [c0 * 1000, c0 * 1000 + 700000]), ("de", [e0 * 1000, e0 * 1000 + 300000])]
    return _check_sami(_sami_write(langs), langs)


# --- DFXP reader: div -> language --------------------------------------------------------------------
class _Div:
    def __init__(self, lang, n):
        self.attrs = {} if lang is None else {"xml:lang": lang}
        self.n = n


class _Doc:
    """contract stub of the parsed TTML document as used by DFXPReader.read"""

    def __init__(self, tt_lang, divs):
        class TT:
            attrs = {} if tt_lang is None else {"xml:lang": tt_lang}
        self.tt = TT()
        self.divs = divs

    def find_all(self, name):
        return list(self.divs) if name == "div" else []


def _code(i):
    if i == 0:
        return None
    if i == 1:
        return "en"
    if i == 2:
        return "fr"
    return "de"


def dfxp_div_langs(tt: int, d0: int, d1: int, d2: int, ndiv: int) -> str:
    """
    pre: 0 <= tt < 4 and 0 <= d0 < 4 and 0 <= d1 < 4 and 0 <= d2 < 4 and 1 <= ndiv <= 3
    post: _ == ""
    """
    codes = [_code(d0), _code(d1), _code(d2)][:ndiv]
    default = _code(tt) if _code(tt) is not None else db.DEFAULT_LANGUAGE_CODE
    eff = [c if c is not None else default for c in codes]
    if len(set(eff)) != len(eff):
        return ""  # two divs for one language: outside the statement's domain
    divs = [_Div(c, i) for i, c in enumerate(codes)]

    class R(DFXPReader):
        @staticmethod
        def _get_dfxp_parser_class():
            return lambda content, read_invalid_positioning=False: _Doc(_code(tt), divs)

        def _convert_div_to_caption_list(self, div):
            return CaptionList([Caption(div.n * 1000, div.n * 1000 + 1, [CaptionNode.create_text(f"div{div.n}")])])
    cs = R().read("x")
    if cs.get_languages() != eff:
        return "languages / order / fallback"
    for i, lang in enumerate(eff):
        caps = cs.get_captions(lang)
        if len(caps) != 1 or caps[0].get_text() != f"div{i}":
            return "cue under another language"
    return ""


# --- language options ----------------------------------------------------------------------------------
def _three(order, codes=("en", "fr", "de")):
    a, b, c = codes
    names = [(a, b, c), (b, c, a), (c, a, b)][order]
    return CaptionSet({n: CaptionList([Caption(1000000, 2000000, [CaptionNode.create_text("text-" + n + "!")])]) for n in names}), names


def lang_options(order: int, pick: int, writer: int) -> str:
    """
    pre: 0 <= order < 3 and 0 <= pick < 5 and 0 <= writer < 3
    post: _ == ""
    """
    return _lang_options(order, pick, writer, ("en", "fr", "de"))


def lang_options_prefix(order: int, pick: int, writer: int) -> str:
    """
    pre: 0 <= order < 3 and 0 <= pick < 5 and 0 <= writer < 3
    post: _ == ""
    """
    # one language code is a prefix of another: the option names exactly one of them
    return _lang_options(order, pick, writer, ("fr", "fr-CA", "de"))


def _lang_options(order, pick, writer, codes):
    cs, names = _three(order, codes)
    want = (None, codes[0], codes[1], codes[2], codes[0][:1] + "-")[pick]   # the last one is not a language of the set
    unknown = pick == 4

    def present_in(out):
        return [n for n in codes if ("text-" + n + "!") in out]
    if writer == 0:
        out = WebVTTWriter().write(cs) if want is None else WebVTTWriter().write(cs, lang=want)
        exp = names[0] if want is None else want
        present = present_in(out)
        if unknown:
            return "" if present == [] else "unknown language selected something"
        return "" if present == [exp] else "WebVTT lang= selected another language"
    from harness.C09_writers import _FakeBS
    with _FakeBS():
        if writer == 1:
            out = DFXPWriter().write(cs) if want is None else DFXPWriter().write(cs, force=want)
            present = present_in(out)
            if want is None or unknown:
                return "" if present == list(codes) else "DFXP without a usable force= must write all languages"
            return "" if present == [want] else "DFXP force= selected another language"
        out = LegacyDFXPWriter().write(cs) if want is None else LegacyDFXPWriter().write(cs, force=want)
    present = present_in(out)
    if want is None:
        return "" if present == list(codes) else "legacy DFXP must write all languages"
    if unknown:
        return ""  # documented: falls back to the last language
    return "" if present == [want] else "legacy force= selected another language"


def sami_find_lang(n: int, k0: int, k1: int, k2: int) -> str:
    """
    pre: 0 <= n <= 3 and 0 <= k0 < 5 and 0 <= k1 < 5 and 0 <= k2 < 5
    post: _ == ""
    """
    # attribute kinds: 0 lang="fr-CA", 1 class=ENCC (known class), 2 class=ZZ (unknown), 3 id=x, 4 LANG="de"
    kinds = [k0, k1, k2][:n]
    attrs = []
    want = None
    for k in kinds:
        a = [("lang", "fr-CA"), ("class", "ENCC"), ("class", "ZZ"), ("id", "x"), ("LANG", "de")][k]
        attrs.append(a)
        if want is None:
            if k == 0:
                want = "fr"
            elif k == 1:
                want = "en-US"
            elif k == 4:
                want = "de"
    p = SAMIParser()
    p.styles = {"encc": {"lang": "en-US"}}
    got = p._find_lang(attrs)
    return "" if got == want else "language of the paragraph"


def sami_two_langs_21(a0: int, b0: int, a1: int, b1: int, c0: int, d0: int) -> str:
    """
    pre: 0 <= a0 <= b0 <= a1 <= b1 < 86400000 and 0 <= c0 <= d0 < 86400000
    post: _ == ""
    """
    langs = [("en", [a0 * 1000, b0 * 1000, a1 * 1000, b1 * 1000]), ("fr", [c0 * 1000, d0 * 1000])]
    return _check_sami(_sami_write(langs), langs)


def sami_two_langs_22(a0: int, b0: int, a1: int, b1: int, c0: int, d0: int, c1: int, d1: int) -> str:
    """
    pre: 0 <= a0 <= b0 <= a1 <= b1 < 86400000 and 0 <= c0 <= d0 <= c1 <= d1 < 86400000
    post: _ == ""
    """
    langs = [("en", [a0 * 1000, b0 * 1000, a1 * 1000, b1 * 1000]), ("fr", [c0 * 1000, d0 * 1000, c1 * 1000, d1 * 1000])]
    return _check_sami(_sami_write(langs), langs)


def sami_three_langs_full(a0: int, b0: int, c0: int, d0: int, e0: int, f0: int) -> str:
    """
    pre: 0 <= a0 <= b0 < 86400000 and 0 <= c0 <= d0 < 86400000 and 0 <= e0 <= f0 < 86400000
    post: _ == ""
    """
    langs = [("en", [a0 * 1000, b0 * 1000]), ("fr", [c0 * 1000, d0 * 1000]), ("de", [e0 * 1000, f0 * 1000])]
    return _check_sami(_sami_write(langs), langs)


# --- SAMI: language codes of which one is a prefix of another (fr / fr-CA), write then read -----------------------
def sami_prefix_roundtrip(order: int, third: bool) -> str:
    """
    pre: 0 <= order < 2
    post: _ == ""
    """
    import pycaption.sami as sm
    from pycaption import SAMIWriter, SAMIReader
    from harness.C09_writers import _FakeBS
    from harness.C11_styles import _bs_html
    names = ("fr", "fr-CA") if order == 0 else ("fr-CA", "fr")
    if third:
        names = names + ("de",)
    cs = CaptionSet({n: CaptionList([Caption(1000000, 2000000, [CaptionNode.create_text("one " + n + "!")]),
                                     Caption(3000000, 4000000, [CaptionNode.create_text("two " + n + "!")])]) for n in names})
    with _FakeBS():
        doc = SAMIWriter().write(cs)
    saved = sm.BeautifulSoup
    sm.BeautifulSoup = _bs_html
    try:
        back = SAMIReader().read(doc)
    finally:
        sm.BeautifulSoup = saved
    if sorted(back.get_languages()) != sorted(names):
        return "languages after SAMI write + read"
    for n in names:
        got = [c.get_text() for c in back.get_captions(n)]
        if got != ["one " + n + "!", "two " + n + "!"]:
            return "a language's captions contain another language's cues (or lost their own)"
    return ""


def public_sami_prefix_roundtrip(order, third):
    from pycaption import SAMIWriter, SAMIReader
    names = ("fr", "fr-CA") if order == 0 else ("fr-CA", "fr")
    if third:
        names = names + ("de",)
    cs = CaptionSet({n: CaptionList([Caption(1000000, 2000000, [CaptionNode.create_text("one " + n + "!")]),
                                     Caption(3000000, 4000000, [CaptionNode.create_text("two " + n + "!")])]) for n in names})
    back = SAMIReader().read(SAMIWriter().write(cs))
    for n in names:
        got = [c.get_text() for c in back.get_captions(n)] if n in back.get_languages() else None
        if got != ["one " + n + "!", "two " + n + "!"]:
            return "language %s reads back as %r" % (n, got)
    return ""
