"""C18 - geometry values: parsing, printing, padding shorthand, non-mutation (E1 part).

Real code: Size.from_string, Size.__str__, Padding.from_xml_attribute, Point/Stretch.from_xml_attribute,
Size/Point/Stretch/Padding/Layout.as_percentage_of, Layout.fit_to_screen.
Numbers cannot be symbolic floats under CrossHair; magnitudes are finite choices here (the unbounded
part - equality/hash over all reals - is E4, the grammar over all strings <= 12 is E3).
"""
import pycaption.geometry as g
from pycaption.geometry import Size, Point, Stretch, Padding, Layout, Alignment, UnitEnum
from pycaption.geometry import HorizontalAlignmentEnum as H, VerticalAlignmentEnum as V
from pycaption.exceptions import CaptionReadSyntaxError
from harness.ref_text import text_of

ALPHA = (48, 49, 53, 46, 43, 45, 101, 112, 120, 109, 37, 99, 116, 32)  # 0 1 5 . + - e p x m % c t space


def _alpha(cps, lo, hi):
    if not (lo <= len(cps) <= hi):
        return False
    ok = True
    for c in cps:
        m = False
        for k in ALPHA:
            m = m | (c == k)
        ok = ok & m
    return ok


def _ref_size(s):
    """reference acceptor: D+(.D+)?(px|em|%|c|pt) | 0"""
    if s == "0":
        return True
    i = 0
    n = len(s)
    while i < n and "0" <= s[i] <= "9":
        i += 1
    if i == 0:
        return False
    if i < n and s[i] == ".":
        j = i + 1
        while j < n and "0" <= s[j] <= "9":
            j += 1
        if j == i + 1:
            return False
        i = j
    rest = s[i:]
    return rest == "px" or rest == "em" or rest == "%" or rest == "c" or rest == "pt"


def from_string_accepts(cps: list[int]) -> str:
    """
    pre: _alpha(cps, 0, 3)
    post: _ == ""
    """
    return _accepts(text_of(cps))


def from_string_accepts_digit(cps: list[int]) -> str:
    """
    pre: _alpha(cps, 3, 3)
    post: _ == ""
    """
    return _accepts("5" + text_of(cps))


def _accepts(s):
    g.float = lambda v: 1.0  # numeric value is not the subject here (keeps CrossHair from enumerating numerals)
    try:
        try:
            r = Size.from_string(s)
            acc = True
        except CaptionReadSyntaxError:
            acc = False
    finally:
        del g.float
    want = _ref_size(s)
    if acc != want:
        return "accepted a non-size" if acc else "rejected a valid size"
    if acc and s != "0":
        u = r.unit.value
        if not s.endswith(u):
            return "unit"
    return ""


VALS = (0.0, 1.0, 10.5, 12.345, 0.125, 99.999, 3.1, 100.0, 7.006, 2.675)
PRINTED = ("0", "1", "10.5", "12.35", "0.12", "100", "3.1", "100", "7.01", "2.67")  # round-half-even of the binary value, two decimals


def _val(i):
    if i == 0:
        return 0
    if i == 1:
        return 1
    if i == 2:
        return 2
    if i == 3:
        return 3
    if i == 4:
        return 4
    if i == 5:
        return 5
    if i == 6:
        return 6
    if i == 7:
        return 7
    if i == 8:
        return 8
    return 9


def _unit(i):
    if i == 0:
        return UnitEnum.PIXEL
    if i == 1:
        return UnitEnum.EM
    if i == 2:
        return UnitEnum.PERCENT
    if i == 3:
        return UnitEnum.CELL
    return UnitEnum.PT


def print_parse(i: int, u: int) -> str:
    """
    pre: 0 <= i < 10 and 0 <= u < 5
    post: _ == ""
    """
    k = _val(i)
    s = Size(VALS[k], _unit(u))
    text = str(s)
    if text != PRINTED[k] + _unit(u).value:
        return "printed form"
    back = Size.from_string(text)
    if back != Size(round(VALS[k], 2), _unit(u)):
        return "re-parse differs"
    if str(back) != text:
        return "printing not idempotent"
    if s.to_xml_attribute() != text:
        return "xml attribute form"
    return ""


def padding_shorthand(n: int, a: int, b: int, c: int, d: int) -> str:
    """
    pre: 1 <= n <= 4 and 0 <= a < 3 and 0 <= b < 3 and 1 <= c < 4 and 1 <= d < 4
    post: _ == ""
    """
    toks = ("1px", "2%", "3em", "4c")
    vals = [toks[_val(a)], toks[_val(b)], toks[_val(c)], toks[_val(d)]][:n]
    p = Padding.from_xml_attribute(" ".join(vals))
    S = [Size.from_string(v) for v in vals]
    if n == 1:
        want = (S[0], S[0], S[0], S[0])      # before, end, after, start
    elif n == 2:
        want = (S[0], S[1], S[0], S[1])
    elif n == 3:
        want = (S[0], S[1], S[2], S[1])
    else:
        want = (S[0], S[1], S[2], S[3])
    got = (p.before, p.end, p.after, p.start)
    if got != want:
        return "TTML order before,end,after,start"
    if n == 4 and p.to_xml_attribute() != " ".join(vals):
        return "printed order"
    return ""


def _snap(o):
    if o is None:
        return None
    if isinstance(o, Size):
        return ("S", o.value, o.unit)
    if isinstance(o, Point):
        return ("P", _snap(o.x), _snap(o.y))
    if isinstance(o, Stretch):
        return ("St", _snap(o.horizontal), _snap(o.vertical))
    if isinstance(o, Padding):
        return ("Pd", _snap(o.before), _snap(o.after), _snap(o.start), _snap(o.end))
    if isinstance(o, Alignment):
        return ("A", o.horizontal, o.vertical)
    return ("L", _snap(o.origin), _snap(o.extent), _snap(o.padding), _snap(o.alignment), o.webvtt_positioning)


def non_mutation(uo: int, ue: int, has_e: bool, has_p: bool, has_a: bool, big: bool) -> str:
    """
    pre: 0 <= uo < 5 and 0 <= ue < 5
    post: _ == ""
    """
    x = 80.0 if big else 20.0
    lay = Layout(origin=Point(Size(x, _unit(uo)), Size(30.0, _unit(uo))),
                 extent=Stretch(Size(50.0, _unit(ue)), Size(40.0, _unit(ue))) if has_e else None,
                 padding=Padding(Size(1.0, _unit(uo)), Size(2.0, _unit(uo)), Size(3.0, _unit(uo)), Size(4.0, _unit(uo))) if has_p else None,
                 alignment=Alignment(H.CENTER, V.TOP) if has_a else None)
    before = _snap(lay)
    rel = lay.as_percentage_of(640, 360)
    if _snap(lay) != before:
        return "as_percentage_of modified the receiver"
    if not rel.is_relative():
        return "result not relative"
    b2 = _snap(rel)
    fit = rel.fit_to_screen()
    if _snap(rel) != b2 or _snap(lay) != before:
        return "fit_to_screen modified the receiver"
    if fit is rel and fit.origin is not None:
        return "fit_to_screen returned the receiver"
    if fit.alignment != lay.alignment or fit.padding != rel.padding or fit.origin != rel.origin:
        return "fit_to_screen changed a component it must keep"
    return ""


def two_dim_from_attr(a: int, b: int, point: bool) -> str:
    """
    pre: 0 <= a < 4 and 0 <= b < 4
    post: _ == ""
    """
    toks = ("1px", "2%", "3em", "4c")
    ta, tb = toks[_val(a)], toks[_val(b)]
    o = (Point if point else Stretch).from_xml_attribute(ta + " " + tb)
    first, second = (o.x, o.y) if point else (o.horizontal, o.vertical)
    if first != Size.from_string(ta) or second != Size.from_string(tb):
        return "component order"
    if o.to_xml_attribute() != ta + " " + tb:
        return "printed"
    return ""
