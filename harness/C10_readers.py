"""C10 - reading is a deterministic, isolated function of document and options.

Real code: public read() of SRT/WebVTT/MicroDVD/SCC readers (whole), CaptionSet/Caption constructors and
mutators, SAMIParser.handle_starttag/_find_lang + SAMIReader.read's language loop (parser and tree behind
the reader's factory hooks), SAMIReader._translate_lang and DFXPReader._convert_tag_to_node for reuse.
Hash seeds: Python promises nothing about set iteration order, so a set created by the code under test
is replaced by NondetSet, whose order is chosen by the solver.
"""
from pycaption import SRTReader, WebVTTReader, MicroDVDReader, SCCReader, SAMIReader
from pycaption.base import Caption, CaptionNode, CaptionList
import pycaption.sami as sm
from harness.csbuild import snap_set, mutable_ids

DOCS = {
    "srt": ("1\n00:00:01,000 --> 00:00:02,000\nfoo\n", "1\n00:00:03,000 --> 00:00:04,000\nbar\nbaz\n\n2\n00:00:05,000 --> 00:00:06,000\nqux\n"),
    "vtt": ("WEBVTT\n\n00:01.000 --> 00:02.000\nfoo\n", "WEBVTT\n\n00:03.000 --> 00:04.000 align:left\nbar\nbaz\n\n00:05.000 --> 00:06.000\nqux\n"),
    # the first document declares its own frame rate, the second relies on the default
    "mdvd": ("{0}{0}23.976\n{25}{50}foo\n", "{75}{100}bar|baz\n{125}{150}qux\n"),
    # first document ends on row 14, the second one starts with a preamble for row 15 (the row right below)
    # and its second caption has no preamble at all (it is placed at the reader's default position)
    "scc": ("Scenarist_SCC V1.0\n\n00:00:01:00\t9420 91d0 c162 942f\n\n00:00:05:00\t942c\n\n00:00:06:00\t9420 94d0 c162 942f\n\n00:00:09:00\t942c\n",
            "Scenarist_SCC V1.0\n\n00:00:11:00\t9420 9470 c1c2 942f\n\n00:00:15:00\t942c\n\n00:00:16:00\t9420 9454 c1c2 9470 c162 942f\n\n00:00:19:00\t942c\n"),
    # a document whose first caption has no preamble address code: it takes the default position of a fresh reader
    "scc_nopac": ("Scenarist_SCC V1.0\n\n00:00:01:00\t9420 91d0 c162 942f\n\n00:00:05:00\t942c\n",
                  "Scenarist_SCC V1.0\n\n00:00:11:00\t9420 c1c2 942f\n\n00:00:15:00\t942c\n"),
}


def _reader(i):
    if i == 4:
        return "scc_nopac", SCCReader
    if i == 0:
        return "srt", SRTReader
    if i == 1:
        return "vtt", WebVTTReader
    if i == 2:
        return "mdvd", MicroDVDReader
    return "scc", SCCReader


def _lang(cs):
    return cs.get_languages()[0]


def isolation(ra: int, rb: int, op: int, which_doc: bool) -> str:
    """
    pre: 0 <= ra < 4 and 0 <= rb < 4 and 0 <= op < 5
    post: _ == ""
    """
    ka, Ra = _reader(ra)
    kb, Rb = _reader(rb)
    a = Ra().read(DOCS[ka][0])
    b = Rb().read(DOCS[kb][1 if which_doc else 0])
    before_b = snap_set(b)
    fresh_b = snap_set(Rb().read(DOCS[kb][1 if which_doc else 0]))
    if before_b != fresh_b:
        return "second read differs from a fresh read"
    cap = a.get_captions(_lang(a))[0]
    if op == 0:
        a.add_style("mystyle", {"color": "red"})
    elif op == 1:
        cap.style["color"] = "blue"
    elif op == 2:
        a.set_captions("xx", CaptionList([Caption(0, 1, [CaptionNode.create_text("new")])]))
    elif op == 3:
        cap.nodes.append(CaptionNode.create_text("extra"))
        cap.start = 42
    else:
        a.get_captions(_lang(a)).append(Caption(7, 8, [CaptionNode.create_text("appended")]))
    if snap_set(b) != before_b:
        return "editing one result changed another result"
    later = snap_set(Rb().read(DOCS[kb][1 if which_doc else 0]))
    if later != fresh_b:
        return "editing one result changed a later read"
    return ""


def reuse_pure(r: int, first: bool) -> str:
    """
    pre: 0 <= r < 5
    post: _ == ""
    """
    k, R = _reader(r)
    reader = R()
    d1 = DOCS[k][0 if first else 1]
    d2 = DOCS[k][1 if first else 0]
    reader.read(d1)
    got = snap_set(reader.read(d2))
    want = snap_set(R().read(d2))
    if got != want:
        return "a used reader object reads differently from a fresh one"
    again = snap_set(reader.read(d2))
    return "" if again == want else "third read differs"


def plain_results_disjoint(r: int, same_reader: bool, first: bool) -> str:
    """
    pre: 0 <= r < 4
    post: _ == ""
    """
    # two results (of one reader object or of two) share no mutable object: no in-place edit of one can reach the other
    k, R = _reader(r)
    doc = DOCS[k][0 if first else 1]
    r1 = R()
    a = r1.read(doc)
    b = (r1 if same_reader else R()).read(doc)
    ida = mutable_ids(a)
    idb = mutable_ids(b)
    shared = [t for oid, t in ida.items() if oid in idb]
    return "" if not shared else "two results share mutable objects: " + ", ".join(sorted(set(shared)))


# --- hash seeds: SAMI language order -------------------------------------------------------------
class NondetSet:
    """a set whose iteration order is chosen by the solver (picks are symbolic ints)"""

    def __init__(self, picks):
        self.items = []
        self.picks = picks

    def add(self, x):
        if x not in self.items:
            self.items.append(x)

    def __contains__(self, x):
        return x in self.items

    def __len__(self):
        return len(self.items)

    def __iter__(self):
        rest = list(self.items)
        out = []
        k = 0
        while rest:
            i = self.picks[k] if k < len(self.picks) else 0
            k += 1
            if not (0 <= i < len(rest)):
                i = 0
            out.append(rest.pop(i))
        return iter(out)


LANG_CLASSES = (("encc", "en-US"), ("frcc", "fr-FR"), ("decc", "de-DE"))


def sami_lang_order(p0: int, p1: int, first: int, second: int) -> str:
    """
    pre: 0 <= p0 < 3 and 0 <= p1 < 2 and 0 <= first < 3 and 0 <= second < 3 and first != second
    post: _ == ""
    """
    third = 3 - first - second
    order = [first, second, third, first]  # document order of the P elements (first language appears again)
    sm.set = lambda *a: NondetSet([p0, p1])
    try:
        parser = sm.SAMIParser()
    finally:
        del sm.set
    parser.styles = {c: {"lang": lang} for c, lang in LANG_CLASSES}
    for k in order:
        parser.handle_starttag("p", [("class", LANG_CLASSES[k][0].upper())])
        parser.handle_endtag("p")
    langs_container = parser.langs

    class P:
        def feed(self, content):
            return content, {}, langs_container

    class R(SAMIReader):
        @staticmethod
        def _get_sami_parser_class():
            return P

        @staticmethod
        def _get_xml_parser_class():
            return lambda content, features=None: None

        def _translate_lang(self, language, soup, layout):
            return CaptionList([Caption(0, 1, [CaptionNode.create_text(language)])])
    got = R().read("x").get_languages()
    want = [LANG_CLASSES[first][1], LANG_CLASSES[second][1], LANG_CLASSES[third][1]]
    return "" if got == want else "language order is not the order of first appearance"


# --- reuse of the stateful SAMI / DFXP readers ----------------------------------------------------
def sami_dfxp_reuse(t0: int, t1: int, s0: int, s1: int) -> str:
    """
    pre: 0 <= t0 < t1 < 360000000 and 0 <= s0 < 5 and 0 <= s1 < 5
    post: _ == ""
    """
    from harness.C01_sami import R as SR, Soup, P as SP, Sync, StartAttr
    import pycaption.dfxp.base as db

    def soup(times, shapes):
        ps = []
        for i, (t, sh) in enumerate(zip(times, shapes)):
            s = Sync(t)
            for j, k in enumerate({0: "T", 1: "E", 2: "TT", 3: "TE", 4: "ET"}[sh]):
                ps.append(SP(s, f"c{i}{j}" if k == "T" else " "))
        return Soup(ps)

    def dump(caps):
        return [(c.start, c.end, c.get_text()) for c in caps]
    sm.float = lambda a: a.ms if isinstance(a, StartAttr) else float(a)
    try:
        used = SR()
        used._translate_lang("en", soup([5, 9], [2, 0]), None)
        got = dump(used._translate_lang("en", soup([t0, t1], [s0, s1]), None))
        want = dump(SR()._translate_lang("en", soup([t0, t1], [s0, s1]), None))
    finally:
        del sm.float
    if got != want:
        return "used SAMIReader differs from a fresh one"
    return ""


# --- public API replay of the language-order obligation: real documents, real hash seeds --------------
def public_sami_lang_order(p0, p1, first, second):
    import subprocess, sys, json
    third = 3 - first - second
    names = [LANG_CLASSES[k] for k in (first, second, third, first)]
    css = " ".join(".%s {Name: x; lang: %s;}" % (c.upper(), lang) for c, lang in LANG_CLASSES)
    body = "".join('<SYNC start=%d><P class=%s>t%d</P></SYNC>' % (1000 * (i + 1), c.upper(), i) for i, (c, lang) in enumerate(names))
    doc = '<SAMI><HEAD><STYLE TYPE="text/css"><!-- ' + css + ' --></STYLE></HEAD><BODY>' + body + '</BODY></SAMI>'
    want = [LANG_CLASSES[first][1], LANG_CLASSES[second][1], LANG_CLASSES[third][1]]
    code = "import sys,json; from pycaption import SAMIReader; print(json.dumps(SAMIReader().read(sys.argv[1]).get_languages()))"
    import os
    for seed in range(12):
        env = dict(os.environ, PYTHONHASHSEED=str(seed))
        out = subprocess.run([sys.executable, "-c", code, doc], capture_output=True, text=True, env=env).stdout.strip()
        got = json.loads(out) if out else None
        if got != want:
            return f"PYTHONHASHSEED={seed}: languages {got}, order of first appearance {want}"
    return ""


# --- hash seeds: which stylesheet class gives a language its layout -------------------------------------
def sami_lang_layout_order(p0: int, p1: int, swap: bool) -> str:
    """
    pre: 0 <= p0 <= 2 and 0 <= p1 <= 1
    post: _ == ""
    """
    from harness.ndset import nondet_module, PICKS
    nd, sites = nondet_module(sm)
    if sites == 0:
        return ""  # the module creates no set
    styles = {"p": {"text-align": "center"}}
    a, b = ("encc", "right"), ("enalt", "left")
    if swap:
        a, b = b, a
    styles[a[0]] = {"lang": "en-US", "text-align": a[1]}
    styles[b[0]] = {"lang": "en-US", "text-align": b[1]}
    styles["note"] = {"color": "red"}
    seen = []

    class P:
        def feed(self, content):
            return content, styles, ["en-US"]

    class R(nd.SAMIReader):
        @staticmethod
        def _get_sami_parser_class():
            return P

        @staticmethod
        def _get_xml_parser_class():
            return lambda content, features=None: None

        def _translate_lang(self, language, soup, layout):
            seen.append(layout)
            return CaptionList([Caption(0, 1, [CaptionNode.create_text(language)])])
    outs = []
    for picks in ([p0, p1], []):
        PICKS[0] = picks
        del seen[:]
        try:
            R().read("x")
        finally:
            PICKS[0] = []
        outs.append(seen[0].alignment.horizontal if seen and seen[0] is not None and seen[0].alignment else None)
    return "" if outs[0] == outs[1] else "the language layout depends on the iteration order of a set (hash seed)"


# --- results of the markup readers share no mutable object (an in-place edit of one cannot reach another) --
def _markup_results():
    import warnings
    warnings.simplefilter("ignore")
    from pycaption.dfxp import DFXPReader
    dfxp = ('<tt xml:lang="en" xmlns="http://www.w3.org/ns/ttml" xmlns:tts="http://www.w3.org/ns/ttml#styling"><head><layout>'
            '<region xml:id="r1" tts:origin="10%% 10%%" tts:extent="50%% 20%%"/></layout></head><body><div>'
            '<p begin="1s" end="2s"%s>hello <span tts:fontStyle="italic">there</span></p><p begin="3s" end="4s">plain</p></div></body></tt>')
    sami = ('<SAMI><HEAD><STYLE TYPE="text/css"><!-- P {margin-left: 10%%; text-align: center;} .ENCC {Name: English; lang: en-US;} --></STYLE></HEAD><BODY>'
            '<SYNC start=1000><P class=ENCC%s>one</P></SYNC><SYNC start=3000><P class=ENCC>two</P></SYNC></BODY></SAMI>')
    res = []
    for variant in ('', ' region="r1"'):
        res.append(("dfxp", DFXPReader().read(dfxp % variant)))
    for variant in ('', ' style="text-align:right;"'):
        res.append(("sami", SAMIReader().read(sami % variant)))
    return res


MARKUP_RESULTS = _markup_results()


def markup_results_disjoint(i: int, j: int) -> str:
    """
    pre: 0 <= i < 4 and 0 <= j < 4 and i != j
    post: _ == ""
    """
    a = b = None
    k = 0
    for kind, cs in MARKUP_RESULTS:
        if k == i:
            a = cs
        if k == j:
            b = cs
        k += 1
    ida = mutable_ids(a)
    idb = mutable_ids(b)
    shared = [t for oid, t in ida.items() if oid in idb]
    return "" if not shared else "two results share mutable objects: " + ", ".join(sorted(set(shared)))
