"""C15 - SCC line-length scan: SCCReader.read with the caption stash filled directly.

Real code: the post-read scan in SCCReader.read (lines_too_long keyed by formatted caption start),
CaptionCreator.get_all, PreCaption.to_real_caption, CaptionLineLengthError.
The harness fills reader.caption_stash._collection with PreCaptions (what decoding would have stored)
and calls read() on a header-only document, so the scan is all that runs.
Symbolic: per caption its start (one of two instants - i.e. which captions share a start), the length
of its one or two lines (around the 32 limit), and the order of the captions.
Oracle: raises CaptionLineLengthError whose message names every line longer than 32 iff there is one;
otherwise every returned line has at most 32 characters.
"""
from pycaption.scc import SCCReader
from pycaption.scc.specialized_collections import PreCaption
from pycaption.base import CaptionNode
from pycaption.exceptions import CaptionLineLengthError

LENS = (1, 31, 32, 33, 40)


def _len(i):
    if i == 0:
        return LENS[0]
    if i == 1:
        return LENS[1]
    if i == 2:
        return LENS[2]
    if i == 3:
        return LENS[3]
    return LENS[4]


def _run(specs):
    """specs: list of (same_start: bool, len_index_line1, len_index_line2 or -1)"""
    r = SCCReader()
    lines = []
    pre = []
    for k, (same, i1, i2) in enumerate(specs):
        p = PreCaption(1000000 if same else 3000000 + k * 1000000, 9000000)
        l1 = chr(97 + 2 * k) * _len(i1)
        p.nodes = [CaptionNode.create_text(l1)]
        lines.append(l1)
        if i2 >= 0:
            l2 = chr(98 + 2 * k) * _len(i2)
            p.nodes += [CaptionNode.create_break(), CaptionNode.create_text(l2)]
            lines.append(l2)
        pre.append(p)
    done = []

    def inject(*a):
        # read() (re)initialises the decoding state first; the stash is filled when read() flushes the
        # buffers after the (empty) body, i.e. right before the scan
        if not done and r.caption_stash is not None:
            done.append(1)
            r.caption_stash._collection.extend(pre)
    r._flush_implicit_buffers = inject
    too_long = [ln for ln in lines if len(ln) > 32]
    try:
        cs = r.read("Scenarist_SCC V1.0\n")
    except CaptionLineLengthError as e:
        if not too_long:
            return "spurious length error"
        msg = str(e)
        for ln in too_long:
            if ln not in msg:
                return "offending line not named"
        for ln in lines:
            if len(ln) <= 32 and len(ln) > 1 and ln in msg:
                return "innocent line named"
        return ""
    if too_long:
        return "long line returned silently"
    for c in cs.get_captions("en-US"):
        for ln in c.get_text().split("\n"):
            if len(ln) > 32:
                return "long line in result"
    return ""


def _run_split(specs):
    """specs: list of (same_start, len_index, split): a line of that length made of ONE text node or of two text
    nodes around an italics span (as a mid-row code produces): pieces are each <= 32, the line may not be"""
    r = SCCReader()
    lines = []
    pre = []
    for k, (same, i1, split) in enumerate(specs):
        p = PreCaption(1000000 if same else 3000000 + k * 1000000, 9000000)
        ch = chr(97 + 2 * k)
        n = _len(i1)
        if split and n >= 2:
            h = n // 2
            p.nodes = [CaptionNode.create_text(ch * h), CaptionNode.create_style(True, {"italics": True}),
                       CaptionNode.create_text(ch * (n - h)), CaptionNode.create_style(False, {"italics": True})]
        else:
            p.nodes = [CaptionNode.create_text(ch * n)]
        lines.append(ch * n)
        pre.append(p)
    done = []

    def inject(*a):
        if not done and r.caption_stash is not None:
            done.append(1)
            r.caption_stash._collection.extend(pre)
    r._flush_implicit_buffers = inject
    too_long = [ln for ln in lines if len(ln) > 32]
    try:
        cs = r.read("Scenarist_SCC V1.0\n")
    except CaptionLineLengthError as e:
        if not too_long:
            return "spurious length error"
        for ln in too_long:
            if ln not in str(e):
                return "offending line not named"
        return ""
    return "long line returned silently" if too_long else ""


def scan2_split(s0: bool, s1: bool, a: int, b: int, sp0: bool, sp1: bool) -> str:
    """
    pre: 1 <= a < 5 and 1 <= b < 5
    post: _ == ""
    """
    return _run_split([(s0, a, sp0), (s1, b, sp1)])


def scan2(s0: bool, s1: bool, a: int, b: int) -> str:
    """
    pre: 0 <= a < 5 and 0 <= b < 5
    post: _ == ""
    """
    return _run([(s0, a, -1), (s1, b, -1)])


def scan3(s0: bool, s1: bool, s2: bool, a: int, b: int, c: int) -> str:
    """
    pre: 0 <= a < 5 and 0 <= b < 5 and 0 <= c < 5
    post: _ == ""
    """
    return _run([(s0, a, -1), (s1, b, -1), (s2, c, -1)])


def scan2_two_lines_q(s0: bool, s1: bool, a: int, b: int, c: int, d: int) -> str:
    """
    pre: 2 <= a < 4 and 2 <= b < 4 and 2 <= c < 4 and 2 <= d < 4
    post: _ == ""
    """
    return _run([(s0, a, b), (s1, c, d)])


def scan2_two_lines(s0: bool, s1: bool, a: int, b: int, c: int, d: int) -> str:
    """
    pre: 0 <= a < 5 and 0 <= b < 5 and 0 <= c < 5 and 0 <= d < 5
    post: _ == ""
    """
    return _run([(s0, a, b), (s1, c, d)])


def scan4(s0: bool, s1: bool, s2: bool, s3: bool, a: int, b: int, c: int, d: int) -> str:
    """
    pre: 1 <= a < 4 and 1 <= b < 4 and 1 <= c < 4 and 1 <= d < 4
    post: _ == ""
    """
    return _run([(s0, a, -1), (s1, b, -1), (s2, c, -1), (s3, d, -1)])


# --- real decoding of one row: n character words through the public read ------------------
def _words(n):
    # n two-character words "ab" (c162), n in 0..20 -> 0..40 characters on one row
    return " ".join(["c162"] * n)


def _decode(mode, n):
    if mode == 0:    # pop-on
        body = "00:00:01:00\t9420 9470 " + _words(n) + " 942f\n\n00:00:05:00\t942c\n"
    elif mode == 1:  # roll-up
        body = "00:00:01:00\t9425 9470 " + _words(n) + " 94ad\n\n00:00:05:00\t9470 c162 94ad\n"
    else:            # paint-on
        body = "00:00:01:00\t9429 9470 " + _words(n) + "\n\n00:00:05:00\t9429 9470 c162\n"
    try:
        cs = SCCReader().read("Scenarist_SCC V1.0\n\n" + body)
    except CaptionLineLengthError as e:
        return "" if 2 * n > 32 else "spurious length error"
    if 2 * n > 32:
        return "long line returned silently"
    for c in cs.get_captions("en-US"):
        for ln in c.get_text().split("\n"):
            if len(ln) > 32:
                return "long line in result"
    return ""


def decode_row(mode: int, n: int) -> str:
    """
    pre: 0 <= mode < 3 and 14 <= n <= 19
    post: _ == ""
    """
    return _decode(mode, n)


def decode_row_leading_space(mode: int, lead: int, n: int, odd: bool) -> str:
    """
    pre: 0 <= mode < 3 and 1 <= lead <= 2 and 14 <= n <= 16
    post: _ == ""
    """
    # a row that begins with one or two spaces (rows are often indented with spaces for centring): the spaces are
    # screen cells like any other - total = 2 + 2n (+1) characters
    first = "2061" if lead == 1 else "2020"
    words = first + " " + _words(n) + (" c180" if odd else "")
    total = 2 + 2 * n + (1 if odd else 0)
    if mode == 0:
        body = "00:00:01:00\t9420 9470 " + words + " 942f\n\n00:00:05:00\t942c\n"
    elif mode == 1:
        body = "00:00:01:00\t9425 9470 " + words + " 94ad\n\n00:00:05:00\t9470 c162 94ad\n"
    else:
        body = "00:00:01:00\t9429 9470 " + words + "\n\n00:00:05:00\t9429 9470 c162\n"
    try:
        cs = SCCReader().read("Scenarist_SCC V1.0\n\n" + body)
    except CaptionLineLengthError:
        return "" if total > 32 else "spurious length error"
    if total > 32:
        return "long line returned silently"
    for c in cs.get_captions("en-US"):
        for ln in "".join(c.get_text_nodes()).split("\n"):
            if len(ln) > 32:
                return "long line in result"
    return ""


def _decode_pending(mode, n):
    # the row is still pending when the input ends (no erase / carriage return / further line after it)
    if mode == 0:
        body = "00:00:01:00\t9420 9470 " + _words(n) + " 942f\n"
    elif mode == 1:
        body = "00:00:01:00\t9425 9470 c162 94ad\n\n00:00:03:00\t9470 " + _words(n) + "\n"
    else:
        body = "00:00:01:00\t9429 9470 " + _words(n) + "\n"
    try:
        cs = SCCReader().read("Scenarist_SCC V1.0\n\n" + body)
    except CaptionLineLengthError:
        return "" if 2 * n > 32 else "spurious length error"
    if 2 * n > 32:
        return "long line returned silently"
    for c in cs.get_captions("en-US"):
        for ln in c.get_text().split("\n"):
            if len(ln) > 32:
                return "long line in result"
    return ""


def decode_row_pending(mode: int, n: int) -> str:
    """
    pre: 0 <= mode < 3 and 15 <= n <= 18
    post: _ == ""
    """
    return _decode_pending(mode, n)


def _decode_midrow(mode, n1, n2):
    # a row of 2*n1 characters, a mid-row italics code (one cell), 2*n2 characters
    words = _words(n1) + " 91ae " + _words(n2)
    if mode == 0:
        body = "00:00:01:00\t9420 9470 " + words + " 942f\n\n00:00:05:00\t942c\n"
    elif mode == 1:
        body = "00:00:01:00\t9425 9470 " + words + " 94ad\n\n00:00:05:00\t9470 c162 94ad\n"
    else:
        body = "00:00:01:00\t9429 9470 " + words + "\n\n00:00:05:00\t9429 9470 c162\n"
    try:
        cs = SCCReader().read("Scenarist_SCC V1.0\n\n" + body)
    except CaptionLineLengthError:
        return ""  # refusing is always allowed when the row is longer than 32 cells
    worst = 0
    for c in cs.get_captions("en-US"):
        for ln in "".join(c.get_text_nodes()).split("\n"):
            worst = max(worst, len(ln))
    return "" if worst <= 32 else "long line returned silently"


def decode_row_midrow(mode: int, n1: int, n2: int) -> str:
    """
    pre: 0 <= mode < 3 and 6 <= n1 <= 9 and 6 <= n2 <= 9
    post: _ == ""
    """
    return _decode_midrow(mode, n1, n2)


# --- public API replay: the same captions as a real pop-on stream -------------------------------
def _odd(b):
    return b if bin(b).count("1") % 2 == 1 else b | 0x80


def _text_words(ch, n):
    c = _odd(ord(ch))
    ws = ["%02x%02x" % (c, c)] * (n // 2)
    if n % 2:
        ws.append("%02x80" % c)
    return ws


def _public(specs):
    """Captions sharing the start instant = non-adjacent rows (1, 3, 5, ...) of one pop-on cue; the others are
    later cues of their own.  Lines of one caption go to adjacent rows."""
    from pycaption.scc.constants import PAC_HIGH_BYTE_BY_ROW, PAC_LOW_BYTE_BY_ROW_RESTRICTED

    def pac(row):
        return PAC_HIGH_BYTE_BY_ROW[row] + PAC_LOW_BYTE_BY_ROW_RESTRICTED[row]
    shared = ["9420"]
    later = []
    lines = []
    row = 1
    for k, (same, i1, i2) in enumerate(specs):
        words = [pac(row)] + _text_words(chr(97 + 2 * k), _len(i1))
        lines.append(chr(97 + 2 * k) * _len(i1))
        if i2 >= 0:
            words += [pac(row + 1)] + _text_words(chr(98 + 2 * k), _len(i2))
            lines.append(chr(98 + 2 * k) * _len(i2))
        if same:
            shared += words
            row += 3
        else:
            later.append(["9420", pac(14 if i2 >= 0 else 15)] + [w for w in words if w != pac(row)][0:] )
    doc = "Scenarist_SCC V1.0\n\n"
    t = 1
    if len(shared) > 1:
        doc += "00:00:%02d:00\t" % t + " ".join(shared + ["942f"]) + "\n\n"
        t += 10
    for w in later:
        doc += "00:00:%02d:00\t" % t + " ".join(w + ["942f"]) + "\n\n"
        t += 10
    doc += "00:00:%02d:00\t942c\n" % t
    too_long = [ln for ln in lines if len(ln) > 32]
    try:
        cs = SCCReader().read(doc)
    except CaptionLineLengthError as e:
        msg = str(e)
        miss = [ln for ln in too_long if ln not in msg]
        return ("offending line(s) not named: %r" % miss) if miss else ""
    return "long line returned silently" if too_long else ""


def public_scan2(s0, s1, a, b):
    return _public([(s0, a, -1), (s1, b, -1)])


def public_scan3(s0, s1, s2, a, b, c):
    return _public([(s0, a, -1), (s1, b, -1), (s2, c, -1)])


def public_scan4(s0, s1, s2, s3, a, b, c, d):
    return _public([(s0, a, -1), (s1, b, -1), (s2, c, -1), (s3, d, -1)])
