"""C06 - SCC pop-on timing: captions start at their End-Of-Caption word and end at the next erase / EOC.

Real code: public SCCReader.read(content, offset=...) with the real _SccTimeTranslator (timecodes are concrete on every
path: CrossHair cannot carry symbolic floats; the arithmetic over all timecodes is decided by E2 in smt/C06_fp.py),
_translate_word frame counting, _translate_command (EOC / EDM), _pop_on, TimingCorrectingCaptionList._update_last_batch,
fix_last_captions_without_ending, the flash-cue rejection.
Symbolic: the shape of the stream - number of captions, words per caption (position of EOC in its line), single or
doubled control codes, how each caption is cleared (next EOC / EDM inline before the next EOC / EDM on its own
line after a gap of g frames), drop or non-drop timecode, offset.
Oracle: the schedule computed in exact rationals from the statement.
"""
from fractions import Fraction
from pycaption.scc import SCCReader
from pycaption.exceptions import CaptionReadTimingError
from vlib import ref608 as R

HEADER = "Scenarist_SCC V1.0\n\n"
FRAME = Fraction(1001, 30) * 1000  # microseconds per frame (29.97 fps)


def _tc(frames, drop):
    ff = frames % 30
    s = frames // 30
    return "%02d:%02d:%02d%s%02d" % (s // 3600, s // 60 % 60, s % 60, ";" if drop else ":", ff)


def _instant(line_frames, k, drop, offset_s):
    """exact instant (us) of the k-th word of a line whose timecode is line_frames (in frames of the timecode)"""
    ff = line_frames % 30
    s = line_frames // 30
    sec = Fraction(s) + Fraction(ff + k, 30)
    t = sec * (1 if drop else Fraction(1001, 1000)) * 1000000 - offset_s * 1000000
    return t if t > 0 else Fraction(0)


def _dbl(words, dbl):
    if not dbl:
        return list(words)
    out = []
    for w in words:
        out.append(w)
        if R.classify(w) in ("misc", "pac", "tab", "midrow", "special", "extended"):
            out.append(w)
    return out


GAPS = (3, 40, 100)


def _gap(i):
    if i == 0:
        return GAPS[0]
    if i == 1:
        return GAPS[1]
    return GAPS[2]


def _schedule(specs, dbl, drop, offset_s, spacing=150, base=60):
    """specs: per caption (nwords 1..3, clear 0/1/2, gap index).  Returns (document, [(start, end, text)] expected)."""
    lines = []   # (line_frames, words)
    for i, (nw, clear, g) in enumerate(specs):
        text = "ab" * nw
        words = [R.ENM, R.RCL, R.pac(15)] + R.chars(text)
        if i > 0 and specs[i - 1][1] == 1:
            words.append(R.EDM)            # erase the previous caption right before showing this one
        words.append(R.EOC)
        lines.append((base + i * spacing, _dbl(words, dbl), text))
        if clear == 2:
            lines.append((base + i * spacing + 20 + _gap(g), _dbl([R.EDM], dbl), None))
    lines.sort(key=lambda x: x[0])
    doc = HEADER + "".join(_tc(f, drop) + "\t" + " ".join(ws) + "\n\n" for f, ws, _ in lines)
    # reference schedule
    shown = None
    out = []
    for f, ws, text in lines:
        for k, w in enumerate(ws):
            second_copy = dbl and k > 0 and ws[k - 1] == w and R.classify(w) != "chars" and (k - sum(1 for j in range(k) if False)) >= 0
            if w == R.EDM:
                if shown is not None and not (dbl and k > 0 and ws[k - 1] == w and _is_second(ws, k)):
                    out.append((shown[0], _instant(f, k, drop, offset_s), shown[1]))
                    shown = None
            elif w == R.EOC:
                if dbl and _is_second(ws, k):
                    continue
                t = _instant(f, k, drop, offset_s)
                if shown is not None:
                    out.append((shown[0], t, shown[1]))
                shown = (t, text)
    if shown is not None:
        out.append((shown[0], None, shown[1]))
    # five-frame rule and four-second default
    thr = 5 * FRAME + 1
    res = []
    for i, (s, e, t) in enumerate(out):
        if e is None:
            e = s + 4000000
        elif i + 1 < len(out) and out[i + 1][0] - e < thr:
            e = out[i + 1][0]
        res.append((s, e, t))
    return doc, res


def _is_second(ws, k):
    """in a doubled stream: is ws[k] the second copy of a pair? (pairs are formed left to right)"""
    j = k
    n = 0
    while j > 0 and ws[j - 1] == ws[k]:
        j -= 1
        n += 1
    return n % 2 == 1


def _check(specs, dbl, drop, offset_s):
    doc, want = _schedule(specs, dbl, drop, offset_s)
    flash = any(0 < e - s < 50000 for s, e, _ in want)
    try:
        caps = SCCReader().read(doc, offset=offset_s).get_captions("en-US")
    except CaptionReadTimingError:
        return "" if flash else "spurious timing error"
    if flash:
        return "a displayed duration under 0.05 s was returned"
    if len(caps) != len(want):
        return "number of captions"
    prev = None
    for c, (s, e, t) in zip(caps, want):
        if c.get_text() != t:
            return "transmission order / text"
        if abs(Fraction(c.start) - s) > Fraction(1, 1024):
            return "start is not the instant of the End-Of-Caption word"
        if abs(Fraction(c.end) - e) > Fraction(1, 1024):
            return "end is not the next erase / end-of-caption (five-frame rule, four-second default)"
        if c.start > c.end or (prev is not None and c.start < prev):
            return "order / start <= end"
        prev = c.start
    return ""


def _c3(n):
    # concrete copy of a small symbolic int (the value flows into string building / float arithmetic)
    if n == 1:
        return 1
    if n == 2:
        return 2
    return 3


def timing1(nw: int, clear: int, g: int, dbl: bool, drop: bool, off: int) -> str:
    """
    pre: 1 <= nw <= 3 and (clear == 0 or clear == 2) and 0 <= g < 3 and 0 <= off <= 2
    post: _ == ""
    """
    return _check([(_c3(nw), clear, g)], dbl, drop, 0 if off == 0 else (1 if off == 1 else 2))


def timing2(nw1: int, nw2: int, clear1: int, g1: int, dbl: bool, drop: bool) -> str:
    """
    pre: 1 <= nw1 <= 3 and 1 <= nw2 <= 2 and 0 <= clear1 <= 2 and 0 <= g1 < 3
    post: _ == ""
    """
    return _check([(_c3(nw1), clear1, g1), (_c3(nw2), 0, 0)], dbl, drop, 0)


def timing3(clear1: int, clear2: int, clear3: int, g: int, dbl: bool, drop: bool, off: bool) -> str:
    """
    pre: 0 <= clear1 <= 2 and 0 <= clear2 <= 2 and (clear3 == 0 or clear3 == 2) and 0 <= g < 3
    post: _ == ""
    """
    return _check([(2, clear1, g), (1, clear2, (g + 1) % 3), (3, clear3, (g + 2) % 3)], dbl, drop, 1 if off else 0)


def close_lines(d: int, dbl: bool, drop: bool) -> str:
    """
    pre: 0 <= d <= 3
    post: _ == ""
    """
    # second caption's line follows so closely that the first one is displayed for a few frames only:
    # spacing 12 + d frames between the two lines (flash rejection / very short cue)
    sp = 12 if d == 0 else (13 if d == 1 else (14 if d == 2 else 15))
    doc, want = _schedule([(1, 0, 0), (1, 0, 0)], dbl, drop, 0, spacing=sp)
    flash = any(0 < e - s < 50000 for s, e, _ in want)
    try:
        caps = SCCReader().read(doc).get_captions("en-US")
    except CaptionReadTimingError:
        return "" if flash else "spurious timing error"
    if flash:
        return "a displayed duration under 0.05 s was returned"
    for c, (s, e, t) in zip(caps, want):
        if abs(Fraction(c.start) - s) > Fraction(1, 1024) or abs(Fraction(c.end) - e) > Fraction(1, 1024):
            return "times"
    return "" if len(caps) == len(want) else "number of captions"


def bare_eoc(d: int, dbl: bool, drop: bool) -> str:
    """
    pre: 1 <= d <= 3
    post: _ == ""
    """
    # a lone End-Of-Caption d frames after the caption appeared swaps in empty memory: the caption was visible for
    # d frames only (one frame = 33 ms: below the 0.05 s limit, must be refused)
    dd = 1 if d == 1 else (2 if d == 2 else 3)
    words = _dbl([R.ENM, R.RCL, R.pac(15)] + R.chars("ab") + [R.EOC], dbl)
    k_eoc = len(words) - (2 if dbl else 1)
    # the second line is RCL EOC (an EOC directly after an EOC would be its redundant second copy)
    w2 = _dbl([R.RCL, R.EOC], dbl)
    k2 = len(w2) - (2 if dbl else 1)
    line2 = 60 + k_eoc + dd - k2
    doc = HEADER + _tc(60, drop) + "\t" + " ".join(words) + "\n\n" + _tc(line2, drop) + "\t" + " ".join(w2) + "\n\n"
    s = _instant(60, k_eoc, drop, 0)
    e = _instant(line2, k2, drop, 0)
    flash = 0 < e - s < 50000
    try:
        caps = SCCReader().read(doc).get_captions("en-US")
    except CaptionReadTimingError:
        return "" if flash else "spurious timing error"
    if flash:
        return "a displayed duration under 0.05 s was returned"
    if len(caps) != 1:
        return "number of captions"
    if abs(Fraction(caps[0].start) - s) > Fraction(1, 1024) or abs(Fraction(caps[0].end) - e) > Fraction(1, 1024):
        return "times"
    return ""


def multi_position(npos: int, first_too: bool, clear: int, dbl: bool, drop: bool) -> str:
    """
    pre: 1 <= npos <= 3 and 0 <= clear <= 2
    post: _ == ""
    """
    # a caption whose text sits at several separate screen positions is returned as several Caption objects:
    # every one of them carries the caption's start and end (next EOC / erase / four-second default)
    n = _c3(npos)
    rows = (2, 8, 14)

    def cap_words(k, tag):
        ws = [R.ENM, R.RCL]
        for j in range(k):
            ws += [R.pac(rows[j], 4 * j)] + R.chars(tag + "abc"[j])
        return ws
    w1 = _dbl(cap_words(n if first_too else 1, "x") + [R.EOC], dbl)
    w2 = _dbl(cap_words(n, "y") + [R.EOC], dbl)
    k1 = len(w1) - (2 if dbl else 1)
    k2 = len(w2) - (2 if dbl else 1)
    lines = [(60, w1), (210, w2)]
    e2 = None
    if clear == 1:      # erased on a line of its own
        wl = _dbl([R.EDM], dbl)
        lines.append((330, wl))
        e2 = _instant(330, 0, drop, 0)
    elif clear == 2:    # replaced by a third caption
        w3 = _dbl(cap_words(1, "z") + [R.EOC], dbl)
        lines.append((330, w3))
        e2 = _instant(330, len(w3) - (2 if dbl else 1), drop, 0)
    doc = HEADER + "".join(_tc(f, drop) + "\t" + " ".join(ws) + "\n\n" for f, ws in lines)
    s1, s2 = _instant(60, k1, drop, 0), _instant(210, k2, drop, 0)
    if e2 is None:
        e2 = s2 + 4000000
    try:
        caps = SCCReader().read(doc).get_captions("en-US")
    except Exception as e:
        return "reader raised " + type(e).__name__
    want = [("x" + "abc"[j], s1, s2) for j in range(n if first_too else 1)] + [("y" + "abc"[j], s2, e2) for j in range(n)]
    if clear == 2:
        want.append(("za", e2, e2 + 4000000))
    if len(caps) != len(want):
        return "number of caption objects"
    for c, (t, s, e) in zip(caps, want):
        if c.get_text() != t:
            return "text / order of the positioned parts"
        if abs(Fraction(c.start) - s) > Fraction(1, 1024):
            return "start of a positioned part"
        if abs(Fraction(c.end) - e) > Fraction(1, 1024):
            return "end of a positioned part (next caption / erase / four-second default)"
    return ""
