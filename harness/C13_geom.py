"""C13 - relativization error paths, WebVTT never writes absolute lengths, printed fit-to-screen values.

Real code: BaseWriter._relativize_and_fit_to_screen, Layout/Point/Stretch/Padding/Size.as_percentage_of,
Layout.fit_to_screen, Size.__str__, WebVTTWriter._convert_positioning.  Magnitudes are finite choices
(CrossHair cannot carry symbolic floats); the arithmetic over all values is decided by E2 (smt/C13_fp.py).
"""
from fractions import Fraction
from pycaption.base import BaseWriter
from pycaption.webvtt import WebVTTWriter
from pycaption.exceptions import RelativizationError
from pycaption.geometry import Size, Point, Stretch, Padding, Layout, Alignment, UnitEnum
from pycaption.geometry import HorizontalAlignmentEnum as H, VerticalAlignmentEnum as V


def _unit(i):
    if i == 0:
        return UnitEnum.PIXEL
    if i == 1:
        return UnitEnum.EM
    if i == 2:
        return UnitEnum.PERCENT
    if i == 3:
        return UnitEnum.CELL
    return UnitEnum.PT


def _layout(ux, uy, ue, has_e, has_p, up):
    return Layout(origin=Point(Size(20, _unit(ux)), Size(30, _unit(uy))),
                  extent=Stretch(Size(40, _unit(ue)), Size(10, _unit(ue))) if has_e else None,
                  padding=Padding(Size(1, _unit(up)), Size(2, _unit(up)), Size(3, _unit(up)), Size(4, _unit(up))) if has_p else None,
                  alignment=Alignment(H.LEFT, V.TOP))


def _abs(i):
    return i != 2


def _rel_check(lay, need_w, need_h, has_w, has_h, fit):
    w = BaseWriter(relativize=True, video_width=640 if has_w else None, video_height=360 if has_h else None, fit_to_screen=fit)
    must_raise = (need_w and not has_w) or (need_h and not has_h)
    try:
        out = w._relativize_and_fit_to_screen(lay)
    except RelativizationError:
        return "" if must_raise else "spurious RelativizationError"
    if must_raise:
        return "absolute value passed through without the needed dimension"
    if not out.is_relative():
        return "result not relative"
    if out.alignment != lay.alignment:
        return "alignment lost"
    return ""


def relativize_errors_origin(ux: int, uy: int, has_w: bool, has_h: bool, fit: bool) -> str:
    """
    pre: 0 <= ux < 5 and 0 <= uy < 5
    post: _ == ""
    """
    return _rel_check(_layout(ux, uy, 2, False, False, 2), _abs(ux), _abs(uy), has_w, has_h, fit)


def relativize_errors_extent(ue: int, uy: int, has_w: bool, has_h: bool, fit: bool) -> str:
    """
    pre: 0 <= ue < 5 and 0 <= uy < 5
    post: _ == ""
    """
    return _rel_check(_layout(2, uy, ue, True, False, 2), _abs(ue), _abs(ue) or _abs(uy), has_w, has_h, fit)


def relativize_errors_padding(up: int, ux: int, has_w: bool, has_h: bool, fit: bool) -> str:
    """
    pre: 0 <= up < 5 and 0 <= ux < 5
    post: _ == ""
    """
    return _rel_check(_layout(ux, 2, 2, False, True, up), _abs(up) or _abs(ux), _abs(up), has_w, has_h, fit)


def _expected_pct(v, u, dim, cells):
    if u == UnitEnum.PERCENT:
        return Fraction(v)
    if u == UnitEnum.PIXEL:
        return Fraction(v) * 100 / dim
    if u == UnitEnum.EM:
        return Fraction(v) * 16 * 100 / dim
    if u == UnitEnum.PT:
        return Fraction(v) * 4 / 3 * 100 / dim
    return Fraction(v) * 100 / cells


def relativize_axes(ux: int, uy: int, ue: int, hd: bool) -> str:
    """
    pre: 0 <= ux < 5 and 0 <= uy < 5 and 0 <= ue < 5
    post: _ == ""
    """
    up = ue
    # every component of a layout is a percentage of ITS axis: x, width, start/end padding of the video width
    # (32 columns), y, height, before/after padding of the video height (15 rows)
    W, Hh = (1280, 720) if hd else (640, 360)
    lay = _layout(ux, uy, ue, True, True, up)
    out = BaseWriter(relativize=True, video_width=W, video_height=Hh, fit_to_screen=False)._relativize_and_fit_to_screen(lay)
    tol = Fraction(1, 100)
    checks = ((out.origin.x, 20, _unit(ux), W, 32, "origin x"), (out.origin.y, 30, _unit(uy), Hh, 15, "origin y"),
              (out.extent.horizontal, 40, _unit(ue), W, 32, "width"), (out.extent.vertical, 10, _unit(ue), Hh, 15, "height"),
              (out.padding.before, 1, _unit(up), Hh, 15, "padding before"), (out.padding.after, 2, _unit(up), Hh, 15, "padding after"),
              (out.padding.start, 3, _unit(up), W, 32, "padding start"), (out.padding.end, 4, _unit(up), W, 32, "padding end"))
    for got, v, u, dim, cells, what in checks:
        if got.unit != UnitEnum.PERCENT:
            return what + " not a percentage"
        if abs(Fraction(str(got.value)) - _expected_pct(v, u, dim, cells)) > tol:
            return what + " is not the percentage of its own axis"
    return ""


def vtt_zero_lengths(u: int, which: int, rel: bool, dims: bool) -> str:
    """
    pre: 0 <= u < 5 and 0 <= which < 4
    post: _ == ""
    """
    # zero-valued lengths in absolute units are absolute lengths all the same: never written as '0px' / '0c'
    un = _unit(u)
    P = UnitEnum.PERCENT
    zx = which in (0, 2)
    zy = which in (1, 2)
    lay = Layout(origin=Point(Size(0, un) if zx else Size(20, P), Size(0, un) if zy else Size(30, P)),
                 extent=Stretch(Size(0, un), Size(10, P)) if which == 3 else None)
    w = WebVTTWriter(relativize=rel, video_width=640 if dims else None, video_height=360 if dims else None, fit_to_screen=False)
    try:
        s = w._convert_positioning(lay)
    except RelativizationError:
        return "" if rel else "RelativizationError although relativization is off"
    return "" if _only_percent(s) else "non-percentage length in cue settings"


def _only_percent(settings):
    for tok in settings.split(" "):
        if tok == "":
            continue
        k, _, v = tok.partition(":")
        if k in ("position", "line", "size"):
            if not v.endswith("%"):
                return False
            num = v[:-1]
            if num.startswith("-"):
                num = num[1:]
            if num == "" or not all(ch.isdigit() or ch == "." for ch in num):
                return False
        elif k != "align":
            return False
    return True


def vtt_no_absolute(ux: int, ue: int, has_e: bool, has_p: bool, has_w: bool, has_h: bool, rel: bool, fit: bool) -> str:
    """
    pre: 0 <= ux < 5 and 0 <= ue < 5
    post: _ == ""
    """
    from harness.csbuild import StableHash
    with StableHash():
        return _vtt_no_absolute(ux, ue, has_e, has_p, has_w, has_h, rel, fit)


def _vtt_no_absolute(ux, ue, has_e, has_p, has_w, has_h, rel, fit):
    lay = _layout(ux, (ux + 1) % 5, ue, has_e, has_p, (ue + 2) % 5)
    w = WebVTTWriter(relativize=rel, video_width=640 if has_w else None, video_height=360 if has_h else None, fit_to_screen=fit)
    try:
        s = w._convert_positioning(lay)
    except RelativizationError:
        return "" if rel else "RelativizationError although relativization is off"
    return "" if _only_percent(s) else "non-percentage length in cue settings"


XS = (10.0, 10.01, 35.5, 89.99, 50.0)
WS = (0.01, 54.5, 79.99, 80.0, 90.0, 40.0)


def _x(i):
    if i == 0:
        return XS[0]
    if i == 1:
        return XS[1]
    if i == 2:
        return XS[2]
    if i == 3:
        return XS[3]
    return XS[4]


def _w(i):
    if i == 0:
        return WS[0]
    if i == 1:
        return WS[1]
    if i == 2:
        return WS[2]
    if i == 3:
        return WS[3]
    if i == 4:
        return WS[4]
    return WS[5]


def _pct(s):
    return Fraction(s[:-1]) if s.endswith("%") else None


def fit_printed(ix: int, iy: int, iw: int, ih: int, has_e: bool) -> str:
    """
    pre: 0 <= ix < 5 and 0 <= iy < 5 and 0 <= iw < 6 and 0 <= ih < 6
    post: _ == ""
    """
    P = UnitEnum.PERCENT
    x, y = _x(ix), min(_x(iy), 94.99) if True else 0
    if y < 5:
        y = 5.0
    lay = Layout(origin=Point(Size(x, P), Size(y, P)), extent=Stretch(Size(_w(iw), P), Size(_w(ih), P)) if has_e else None)
    out = lay.fit_to_screen()
    ox, oy = _pct(str(out.origin.x)), _pct(str(out.origin.y))
    ew, eh = _pct(str(out.extent.horizontal)), _pct(str(out.extent.vertical))
    if ox + ew > 90 or oy + eh > 95:
        return "printed region leaves the safe area"
    if not has_e and (ox + ew != 90 or oy + eh != 95):
        return "missing extent does not reach the edge"
    if has_e:
        if Fraction(str(x)) + Fraction(str(_w(iw))) <= 90 and ew != Fraction(str(_w(iw))):
            return "fitting width changed"
        if Fraction(str(y)) + Fraction(str(_w(ih))) <= 95 and eh != Fraction(str(_w(ih))):
            return "fitting height changed"
    return ""


# --- fit-to-screen is applied after relativization (writer entry point) ----------------------------------
def writer_fit(unit: int, has_e: bool, big: bool, dims_hd: bool, rel: bool) -> str:
    """
    pre: 0 <= unit < 5
    post: _ == ""
    """
    W, Hh = (1280, 720) if dims_hd else (640, 360)
    u = _unit(unit)
    if not rel and u != UnitEnum.PERCENT:
        return ""   # relativization off: only layouts that are percentages already can be fitted
    # the same geometry expressed in the chosen unit: origin (10%, 10%) or (50%, 50%); extent 62.5% x 55.56%
    def h(pct):   # horizontal length of pct percent in unit u
        return {UnitEnum.PIXEL: pct * W / 100.0, UnitEnum.EM: pct * W / 1600.0, UnitEnum.PERCENT: pct,
                UnitEnum.CELL: pct * 32 / 100.0, UnitEnum.PT: pct * W / 100.0 * 0.75}[u]

    def v(pct):
        return {UnitEnum.PIXEL: pct * Hh / 100.0, UnitEnum.EM: pct * Hh / 1600.0, UnitEnum.PERCENT: pct,
                UnitEnum.CELL: pct * 15 / 100.0, UnitEnum.PT: pct * Hh / 100.0 * 0.75}[u]
    o = 50.0 if big else 10.0
    lay = Layout(origin=Point(Size(h(o), u), Size(v(o), u)),
                 extent=Stretch(Size(h(62.5), u), Size(v(55.0), u)) if has_e else None)
    out = BaseWriter(relativize=rel, video_width=W, video_height=Hh, fit_to_screen=True)._relativize_and_fit_to_screen(lay)
    if out.extent is None:
        return "fit_to_screen was not applied (missing extent left missing)"
    right = out.origin.x.value + out.extent.horizontal.value
    bottom = out.origin.y.value + out.extent.vertical.value
    if right > 90.0001 or bottom > 95.0001:
        return "region leaves the safe area after relativization"
    if not has_e and (abs(right - 90) > 0.0001 or abs(bottom - 95) > 0.0001):
        return "missing extent does not reach the safe-area edge"
    return ""


# --- WebVTT cue settings depend on the layout and on this writer's options only ---------------------------
def vtt_sequence(first_hd: bool, second: int, same_writer_twice: bool) -> str:
    """
    pre: 0 <= second < 4
    post: _ == ""
    """
    from harness.csbuild import StableHash
    with StableHash():
        return _vtt_sequence(first_hd, second, same_writer_twice)


def _vtt_sequence(first_hd, second, same_writer_twice):
    lay = Layout(origin=Point(Size(64, UnitEnum.PIXEL), Size(36, UnitEnum.PIXEL)), extent=Stretch(Size(320, UnitEnum.PIXEL), Size(72, UnitEnum.PIXEL)))
    a = WebVTTWriter(video_width=1280 if first_hd else 640, video_height=720 if first_hd else 360)
    a._convert_positioning(lay)
    if same_writer_twice:
        a._convert_positioning(lay)
    # a second writer (other video size / no size / width only) on an equal layout
    lay2 = Layout(origin=Point(Size(64, UnitEnum.PIXEL), Size(36, UnitEnum.PIXEL)), extent=Stretch(Size(320, UnitEnum.PIXEL), Size(72, UnitEnum.PIXEL)))
    if second == 0:
        b, want = WebVTTWriter(video_width=1920, video_height=800), " align:start position:3.33% line:4.5% size:16.67%"
    elif second == 1:
        b, want = WebVTTWriter(video_width=640, video_height=360), " align:start position:10% line:10% size:50%"
    elif second == 2:
        b, want = WebVTTWriter(), None
    else:
        b, want = WebVTTWriter(video_width=1280), None
    try:
        got = b._convert_positioning(lay2)
    except RelativizationError:
        return "" if want is None else "spurious RelativizationError"
    if want is None:
        return "absolute layout written although a video dimension is missing"
    return "" if got == want else "cue settings do not correspond to this writer's video size"


# --- DFXP writer: absolute layouts at every level come out as percentages ---------------------------------
def dfxp_levels(level: int, unit: int, fit: bool) -> str:
    """
    pre: 0 <= level < 4 and 0 <= unit < 5
    post: _ == ""
    """
    import pycaption.dfxp.base as db
    from pycaption.dfxp import DFXPWriter
    from pycaption.base import Caption, CaptionNode, CaptionSet, CaptionList
    from harness.fakesoup import dfxp_soup
    from harness.csbuild import StableHash
    u = _unit(unit)
    lay = Layout(origin=Point(Size(4, u), Size(2, u)), extent=Stretch(Size(8, u), Size(3, u)))
    node_l = lay if level == 3 else None
    nodes = [CaptionNode.create_style(True, {"italics": True}, layout_info=node_l), CaptionNode.create_text("x", layout_info=node_l),
             CaptionNode.create_style(False, {"italics": True}, layout_info=node_l)]
    cap = Caption(1000000, 2000000, nodes, layout_info=lay if level == 2 else None)
    cs = CaptionSet({"en": CaptionList([cap], layout_info=lay if level == 1 else None)}, layout_info=lay if level == 0 else None)
    old = db.BeautifulSoup
    db.BeautifulSoup = lambda markup, features=None: dfxp_soup()
    try:
        with StableHash():
            w = DFXPWriter(video_width=640, video_height=360, fit_to_screen=fit)
            w.write(cs)
            soup_regions = w.region_creator._dfxp.find("layout").find_all("region")
    finally:
        db.BeautifulSoup = old
    for r in soup_regions:
        for k in ("tts:origin", "tts:extent", "tts:padding"):
            val = r.attrs.get(k)
            if val is None:
                continue
            for tok in val.split(" "):
                if not tok.endswith("%"):
                    return "absolute length written in a region although relativization is on"
    return ""


def public_dfxp_levels(level, unit, fit):
    """the same caption set through the real DFXPWriter / bs4 / lxml"""
    import re
    from pycaption.dfxp import DFXPWriter
    from pycaption.base import Caption, CaptionNode, CaptionSet, CaptionList
    u = _unit(unit)
    lay = Layout(origin=Point(Size(4, u), Size(2, u)), extent=Stretch(Size(8, u), Size(3, u)))
    node_l = lay if level == 3 else None
    nodes = [CaptionNode.create_style(True, {"italics": True}, layout_info=node_l), CaptionNode.create_text("x", layout_info=node_l),
             CaptionNode.create_style(False, {"italics": True}, layout_info=node_l)]
    cap = Caption(1000000, 2000000, nodes, layout_info=lay if level == 2 else None)
    cs = CaptionSet({"en": CaptionList([cap], layout_info=lay if level == 1 else None)}, layout_info=lay if level == 0 else None)
    out = DFXPWriter(video_width=640, video_height=360, fit_to_screen=fit).write(cs)
    bad = [m for m in re.findall(r'tts:(?:origin|extent|padding)="([^"]*)"', out) if any(not t.endswith("%") for t in m.split())]
    return ("absolute lengths written: %r" % bad) if bad else ""
