"""C13 - relativization error paths, WebVTT never writes absolute lengths, printed fit-to-screen values.

Real code: BaseWriter._relativize_and_fit_to_screen, Layout/Point/Stretch/Padding/Size.as_percentage_of,
Layout.fit_to_screen, Size.__str__, WebVTTWriter._convert_positioning.  Magnitudes are finite choices
(CrossHair cannot carry symbolic floats); the arithmetic over all values is decided by E2 (smt/C13_fp.py).
"""
from fractions import Fraction
from pycaption.base import BaseWriter
from pycaption.webvtt import WebVTTWriter
from pycaption.exceptions import RelativizationError
from pycaption.geometry import Size, Point, Stretch, Padding, Layout, Alignment, UnitEnum
from pycaption.geometry import HorizontalAlignmentEnum as H, VerticalAlignmentEnum as V


def _unit(i):
    if i == 0:
        return UnitEnum.PIXEL
    if i == 1:
        return UnitEnum.EM
    if i == 2:
        return UnitEnum.PERCENT
    if i == 3:
        return UnitEnum.CELL
    return UnitEnum.PT


def _layout(ux, uy, ue, has_e, has_p, up):
    return Layout(origin=Point(Size(20, _unit(ux)), Size(30, _unit(uy))),
                  extent=Stretch(Size(40, _unit(ue)), Size(10, _unit(ue))) if has_e else None,
                  padding=Padding(Size(1, _unit(up)), Size(2, _unit(up)), Size(3, _unit(up)), Size(4, _unit(up))) if has_p else None,
                  alignment=Alignment(H.LEFT, V.TOP))


def _abs(i):
    return i != 2


def _rel_check(lay, need_w, need_h, has_w, has_h, fit):
    w = BaseWriter(relativize=True, video_width=640 if has_w else None, video_height=360 if has_h else None, fit_to_screen=fit)
    must_raise = (need_w and not has_w) or (need_h and not has_h)
    try:
        out = w._relativize_and_fit_to_screen(lay)
    except RelativizationError:
        return "" if must_raise else "spurious RelativizationError"
    if must_raise:
        return "absolute value passed through without the needed dimension"
    if not out.is_relative():
        return "result not relative"
    if out.alignment != lay.alignment:
        return "alignment lost"
    return ""


def relativize_errors_origin(ux: int, uy: int, has_w: bool, has_h: bool, fit: bool) -> str:
    """
    pre: 0 <= ux < 5 and 0 <= uy < 5
    post: _ == ""
    """
    return _rel_check(_layout(ux, uy, 2, False, False, 2), _abs(ux), _abs(uy), has_w, has_h, fit)


def relativize_errors_extent(ue: int, uy: int, has_w: bool, has_h: bool, fit: bool) -> str:
    """
    pre: 0 <= ue < 5 and 0 <= uy < 5
    post: _ == ""
    """
    return _rel_check(_layout(2, uy, ue, True, False, 2), _abs(ue), _abs(ue) or _abs(uy), has_w, has_h, fit)


def relativize_errors_padding(up: int, ux: int, has_w: bool, has_h: bool, fit: bool) -> str:
    """
    pre: 0 <= up < 5 and 0 <= ux < 5
    post: _ == ""
    """
    return _rel_check(_layout(ux, 2, 2, False, True, up), _abs(up) or _abs(ux), _abs(up), has_w, has_h, fit)


def _only_percent(settings):
    for tok in settings.split(" "):
        if tok == "":
            continue
        k, _, v = tok.partition(":")
        if k in ("position", "line", "size"):
            if not v.endswith("%"):
                return False
            num = v[:-1]
            if num.startswith("-"):
                num = num[1:]
            if num == "" or not all(ch.isdigit() or ch == "." for ch in num):
                return False
        elif k != "align":
            return False
    return True


def vtt_no_absolute(ux: int, ue: int, has_e: bool, has_p: bool, has_w: bool, has_h: bool, rel: bool, fit: bool) -> str:
    """
    pre: 0 <= ux < 5 and 0 <= ue < 5
    post: _ == ""
    """
    lay = _layout(ux, (ux + 1) % 5, ue, has_e, has_p, (ue + 2) % 5)
    w = WebVTTWriter(relativize=rel, video_width=640 if has_w else None, video_height=360 if has_h else None, fit_to_screen=fit)
    try:
        s = w._convert_positioning(lay)
    except RelativizationError:
        return "" if rel else "RelativizationError although relativization is off"
    return "" if _only_percent(s) else "non-percentage length in cue settings"


XS = (10.0, 10.01, 35.5, 89.99, 50.0)
WS = (0.01, 54.5, 79.99, 80.0, 90.0, 40.0)


def _x(i):
    if i == 0:
        return XS[0]
    if i == 1:
        return XS[1]
    if i == 2:
        return XS[2]
    if i == 3:
        return XS[3]
    return XS[4]


def _w(i):
    if i == 0:
        return WS[0]
    if i == 1:
        return WS[1]
    if i == 2:
        return WS[2]
    if i == 3:
        return WS[3]
    if i == 4:
        return WS[4]
    return WS[5]


def _pct(s):
    return Fraction(s[:-1]) if s.endswith("%") else None


def fit_printed(ix: int, iy: int, iw: int, ih: int, has_e: bool) -> str:
    """
    pre: 0 <= ix < 5 and 0 <= iy < 5 and 0 <= iw < 6 and 0 <= ih < 6
    post: _ == ""
    """
    P = UnitEnum.PERCENT
    x, y = _x(ix), min(_x(iy), 94.99) if True else 0
    if y < 5:
        y = 5.0
    lay = Layout(origin=Point(Size(x, P), Size(y, P)), extent=Stretch(Size(_w(iw), P), Size(_w(ih), P)) if has_e else None)
    out = lay.fit_to_screen()
    ox, oy = _pct(str(out.origin.x)), _pct(str(out.origin.y))
    ew, eh = _pct(str(out.extent.horizontal)), _pct(str(out.extent.vertical))
    if ox + ew > 90 or oy + eh > 95:
        return "printed region leaves the safe area"
    if not has_e and (ox + ew != 90 or oy + eh != 95):
        return "missing extent does not reach the edge"
    if has_e:
        if Fraction(str(x)) + Fraction(str(_w(iw))) <= 90 and ew != Fraction(str(_w(iw))):
            return "fitting width changed"
        if Fraction(str(y)) + Fraction(str(_w(ih))) <= 95 and eh != Fraction(str(_w(ih))):
            return "fitting height changed"
    return ""
