"""C11 - italic / bold / underline spans survive writing and reading and stay balanced.

Real code: DFXPWriter._recreate_text/_recreate_span (+ module _recreate_style), SAMIWriter._recreate_text/
_recreate_line_style/_recreate_span/_recreate_style, WebVTTWriter._group_cues_by_layout/_convert_style_to_text_tag,
DFXPReader._convert_tag_to_node/_convert_span_to_nodes/_convert_style, SAMIReader._translate_tag/_translate_span/
_translate_attrs/_translate_style, scc.specialized_collections._format_italics.
Symbolic: the sequence of node kinds (text, break, start/end of an italic, bold or underline span), constrained flat
and balanced as the statement requires; the shape of the element tree for the readers.
Oracle: a reference scanner of the emitted markup gives every visible character the same italic (bold, underline)
flag as the input; the markup is balanced and properly nested; readers return balanced style nodes.
"""
import pycaption.dfxp.base as db
import pycaption.sami as sm
from pycaption.dfxp import DFXPWriter, DFXPReader
from pycaption.sami import SAMIWriter, SAMIReader
from pycaption.webvtt import WebVTTWriter
from pycaption.base import Caption, CaptionNode, CaptionSet, CaptionList
from harness.fakesoup import dfxp_soup

STYLES = ("italics", "bold", "underline")


def _dom(kinds, n):
    if len(kinds) != n:
        return False
    ok = True
    for k in kinds:
        ok = ok & (0 <= k) & (k <= 3)
    return ok


def _expand(kinds, style, style2=None):
    """kinds over 0 TEXT, 1 BREAK, 2 START, 3 END  ->  the 8-kind encoding of _build; the second and later spans
    use style2 when given (adjacent spans of different styles)"""
    out = []
    spans = 0
    for k in kinds:
        if k < 2:
            out.append(k)
        else:
            st = style if (style2 is None or spans == 0) else style2
            out.append(2 + 2 * st + (k - 2))
            if k == 3:
                spans += 1
    return out


def _build(kinds):
    """kinds: 0 TEXT, 1 BREAK, 2/3 start/end italics, 4/5 bold, 6/7 underline.
    Returns (nodes, [(char, (i, b, u)) for visible chars]) or None when not flat/balanced or without text."""
    nodes = []
    flags = []
    cur = None
    ntext = 0
    for idx, k in enumerate(kinds):
        if k == 0:
            t = "w" + chr(97 + idx)
            nodes.append(CaptionNode.create_text(t))
            f = (cur == 0, cur == 1, cur == 2)
            flags.extend((ch, f) for ch in t)
            ntext += 1
        elif k == 1:
            nodes.append(CaptionNode.create_break())
        elif k % 2 == 0:
            if cur is not None:
                return None
            cur = (k - 2) // 2
            nodes.append(CaptionNode.create_style(True, {STYLES[cur]: True}))
        else:
            if cur != (k - 3) // 2:
                return None
            nodes.append(CaptionNode.create_style(False, {STYLES[cur]: True}))
            cur = None
    if cur is not None or ntext == 0:
        return None
    return nodes, flags


def _scan(frag, fmt):
    """reference scanner: (error or None, [(char, (i, b, u))])"""
    out = []
    stack = []
    i = 0
    n = len(frag)
    while i < n:
        if frag.startswith("<br/>", i):
            i += 5
        elif frag.startswith("&nbsp;", i):
            i += 6
        elif frag.startswith("</span>", i):
            if not stack or stack[-1][0] != "span":
                return "unbalanced </span>", out
            stack.pop()
            i += 7
        elif frag.startswith("<span", i):
            j = frag.find(">", i)
            if j < 0:
                return "unterminated tag", out
            a = frag[i:j]
            it = 'tts:fontStyle="italic"' in a or "font-style:italic" in a
            bo = 'tts:fontWeight="bold"' in a or "font-weight:bold" in a
            un = "text-decoration:underline" in a or 'tts:textDecoration="underline"' in a
            stack.append(("span", (it, bo, un)))
            i = j + 1
        elif fmt == "vtt" and frag[i] == "<":
            j = frag.find(">", i)
            tag = frag[i + 1:j]
            if tag in ("i", "b", "u"):
                stack.append((tag, (tag == "i", tag == "b", tag == "u")))
            elif tag in ("/i", "/b", "/u"):
                if not stack or stack[-1][0] != tag[1:]:
                    return "improperly nested " + tag, out
                stack.pop()
            else:
                return "unexpected tag", out
            i = j + 1
        else:
            ch = frag[i]
            if ch not in " \n\t":
                f = (any(s[1][0] for s in stack), any(s[1][1] for s in stack), any(s[1][2] for s in stack))
                out.append((ch, f))
            i += 1
    if stack:
        return "unclosed markup at the end", out
    return None, out


def _cmp(got, want, which):
    if len(got) != len(want):
        return "characters lost or added"
    for (c1, f1), (c2, f2) in zip(got, want):
        if c1 != c2:
            return "characters changed"
        for w in which:
            if f1[w] != f2[w]:
                return ("italic", "bold", "underline")[w] + " flag of a character changed"
    return ""


def _dfxp(kinds):
    r = _build(kinds)
    if r is None:
        return ""
    nodes, want = r
    w = DFXPWriter()
    frag = w._recreate_text(Caption(0, 1, nodes), dfxp_soup())
    err, got = _scan(frag, "xml")
    if err:
        return err
    if w.open_span:
        return "writer left a span open"
    return _cmp(got, want, (0,))


def _sami(kinds):
    r = _build(kinds)
    if r is None:
        return ""
    nodes, want = r
    w = SAMIWriter()
    frag = w._recreate_text(nodes)
    err, got = _scan(frag, "xml")
    if err:
        return err
    return _cmp(got, want, (0, 1, 2))


def _vtt(kinds):
    r = _build(kinds)
    if r is None:
        return ""
    nodes, want = r
    groups = WebVTTWriter()._group_cues_by_layout(nodes, CaptionSet({"en": CaptionList()}))
    if len(groups) != 1:
        return "cue split"
    err, got = _scan(groups[0][0], "vtt")
    if err:
        return err
    return _cmp(got, want, (0, 1, 2))


def dfxp_write_i4(kinds: list[int]) -> str:
    """
    pre: _dom(kinds, 4)
    post: _ == ""
    """
    return _dfxp(_expand(kinds, 0))


def dfxp_write_i5(kinds: list[int]) -> str:
    """
    pre: _dom(kinds, 5)
    post: _ == ""
    """
    return _dfxp(_expand(kinds, 0))


def dfxp_write_i6(kinds: list[int]) -> str:
    """
    pre: _dom(kinds, 6)
    post: _ == ""
    """
    return _dfxp(_expand(kinds, 0))


def dfxp_write_mixed(s1: int, s2: int, gap: int, lead: bool, trail: bool) -> str:
    """
    pre: 0 <= s1 <= 2 and 0 <= s2 <= 2 and 0 <= gap <= 2
    post: _ == ""
    """
    # [text] <s1>text</s1> [nothing | text | break] <s2>text</s2> [text]: adjacent spans of (possibly) different styles
    kinds = ([0] if lead else []) + [2 + 2 * s1, 0, 3 + 2 * s1] + ([] if gap == 0 else [0] if gap == 1 else [1]) + \
        [2 + 2 * s2, 0, 3 + 2 * s2] + ([0] if trail else [])
    return _dfxp(kinds)


def sami_write_i4(kinds: list[int]) -> str:
    """
    pre: _dom(kinds, 4)
    post: _ == ""
    """
    return _sami(_expand(kinds, 0))


def sami_write_i5(kinds: list[int]) -> str:
    """
    pre: _dom(kinds, 5)
    post: _ == ""
    """
    return _sami(_expand(kinds, 0))


def sami_write_i6(kinds: list[int]) -> str:
    """
    pre: _dom(kinds, 6)
    post: _ == ""
    """
    return _sami(_expand(kinds, 0))


def sami_write_b4(kinds: list[int]) -> str:
    """
    pre: _dom(kinds, 4)
    post: _ == ""
    """
    return _sami(_expand(kinds, 1))


def sami_write_b5(kinds: list[int]) -> str:
    """
    pre: _dom(kinds, 5)
    post: _ == ""
    """
    return _sami(_expand(kinds, 1))


def sami_write_b6(kinds: list[int]) -> str:
    """
    pre: _dom(kinds, 6)
    post: _ == ""
    """
    return _sami(_expand(kinds, 1))


def sami_write_u4(kinds: list[int]) -> str:
    """
    pre: _dom(kinds, 4)
    post: _ == ""
    """
    return _sami(_expand(kinds, 2))


def sami_write_u5(kinds: list[int]) -> str:
    """
    pre: _dom(kinds, 5)
    post: _ == ""
    """
    return _sami(_expand(kinds, 2))


def sami_write_u6(kinds: list[int]) -> str:
    """
    pre: _dom(kinds, 6)
    post: _ == ""
    """
    return _sami(_expand(kinds, 2))


def sami_write_mixed(s1: int, s2: int, gap: int, lead: bool, trail: bool) -> str:
    """
    pre: 0 <= s1 <= 2 and 0 <= s2 <= 2 and 0 <= gap <= 2
    post: _ == ""
    """
    # [text] <s1>text</s1> [nothing | text | break] <s2>text</s2> [text]: adjacent spans of (possibly) different styles
    kinds = ([0] if lead else []) + [2 + 2 * s1, 0, 3 + 2 * s1] + ([] if gap == 0 else [0] if gap == 1 else [1]) + \
        [2 + 2 * s2, 0, 3 + 2 * s2] + ([0] if trail else [])
    return _sami(kinds)


def vtt_write_i4(kinds: list[int]) -> str:
    """
    pre: _dom(kinds, 4)
    post: _ == ""
    """
    return _vtt(_expand(kinds, 0))


def vtt_write_i5(kinds: list[int]) -> str:
    """
    pre: _dom(kinds, 5)
    post: _ == ""
    """
    return _vtt(_expand(kinds, 0))


def vtt_write_i6(kinds: list[int]) -> str:
    """
    pre: _dom(kinds, 6)
    post: _ == ""
    """
    return _vtt(_expand(kinds, 0))


def vtt_write_b4(kinds: list[int]) -> str:
    """
    pre: _dom(kinds, 4)
    post: _ == ""
    """
    return _vtt(_expand(kinds, 1))


def vtt_write_b5(kinds: list[int]) -> str:
    """
    pre: _dom(kinds, 5)
    post: _ == ""
    """
    return _vtt(_expand(kinds, 1))


def vtt_write_b6(kinds: list[int]) -> str:
    """
    pre: _dom(kinds, 6)
    post: _ == ""
    """
    return _vtt(_expand(kinds, 1))


def vtt_write_u4(kinds: list[int]) -> str:
    """
    pre: _dom(kinds, 4)
    post: _ == ""
    """
    return _vtt(_expand(kinds, 2))


def vtt_write_u5(kinds: list[int]) -> str:
    """
    pre: _dom(kinds, 5)
    post: _ == ""
    """
    return _vtt(_expand(kinds, 2))


def vtt_write_u6(kinds: list[int]) -> str:
    """
    pre: _dom(kinds, 6)
    post: _ == ""
    """
    return _vtt(_expand(kinds, 2))


def vtt_write_mixed(s1: int, s2: int, gap: int, lead: bool, trail: bool) -> str:
    """
    pre: 0 <= s1 <= 2 and 0 <= s2 <= 2 and 0 <= gap <= 2
    post: _ == ""
    """
    # [text] <s1>text</s1> [nothing | text | break] <s2>text</s2> [text]: adjacent spans of (possibly) different styles
    kinds = ([0] if lead else []) + [2 + 2 * s1, 0, 3 + 2 * s1] + ([] if gap == 0 else [0] if gap == 1 else [1]) + \
        [2 + 2 * s2, 0, 3 + 2 * s2] + ([0] if trail else [])
    return _vtt(kinds)


# --- readers on stub element trees -------------------------------------------------------------------
class Leaf(str):
    layout_info = None
    name = None


class El:
    def __init__(self, name, attrs=None, contents=()):
        self.name = name
        self.attrs = dict(attrs or {})
        self.contents = list(contents)
        self.layout_info = None

    def get(self, k, d=None):
        return self.attrs.get(k, d)


def _balanced(nodes):
    open_ = None
    for n in nodes:
        if n.type_ == CaptionNode.STYLE:
            if n.start:
                if open_ is not None:
                    return False
                open_ = n
            else:
                if open_ is None:
                    return False
                open_ = None
    return open_ is None


def _flags_of_nodes(nodes):
    out = []
    cur = (False, False, False)
    for n in nodes:
        if n.type_ == CaptionNode.STYLE:
            c = n.content
            cur = (bool(c.get("italics")), bool(c.get("bold")), bool(c.get("underline"))) if n.start else (False, False, False)
        elif n.type_ == CaptionNode.TEXT:
            out.extend((ch, cur) for ch in n.content if ch not in " \n")
    return out


def _child(kind, idx, fmt):
    """children of the paragraph: 0 text, 1 br, 2 italic span{text}, 3 bold span{text br text}, 4 underline span{text}, 5 plain span{text}"""
    t = "w" + chr(97 + idx)
    if kind == 0:
        return Leaf(t), [(ch, (False, False, False)) for ch in t]
    if kind == 1:
        return El("br"), []
    if fmt == "dfxp":
        attrs = {2: {"tts:fontStyle": "italic"}, 3: {"tts:fontWeight": "bold"}, 4: {"tts:textDecoration": "underline"}, 5: {}}[kind]
        tagname = "span"
    else:
        attrs = {2: {"style": "font-style:italic;"}, 3: {"style": "font-weight:bold;"}, 4: {"style": "text-decoration:underline;"}, 5: {}}[kind]
        tagname = "span"
    f = (kind == 2, kind == 3, kind == 4)
    if kind == 3:
        kids = [Leaf(t), El("br"), Leaf(t + "x")]
        chars = [(ch, f) for ch in t + t + "x"]
    else:
        kids = [Leaf(t)]
        chars = [(ch, f) for ch in t]
    return El(tagname, attrs, kids), chars


def _tree(kinds, fmt):
    kids = []
    want = []
    for i, k in enumerate(kinds):
        c, chars = _child(k, i, fmt)
        kids.append(c)
        want.extend(chars)
    return El("p", {}, kids), want


def dfxp_read(kinds: list[int]) -> str:
    """
    pre: len(kinds) == 3 and all(0 <= k <= 5 for k in kinds)
    post: _ == ""
    """
    p, want = _tree(kinds, "dfxp")
    r = DFXPReader()
    r.nodes = []
    old = db.NavigableString
    db.NavigableString = Leaf
    try:
        r._convert_tag_to_node(p)
    finally:
        db.NavigableString = old
    if not _balanced(r.nodes):
        return "unbalanced style nodes"
    return _cmp(_flags_of_nodes(r.nodes), want, (0, 1, 2))


def sami_read(kinds: list[int], html_tags: bool) -> str:
    """
    pre: len(kinds) == 3 and all(0 <= k <= 5 for k in kinds)
    post: _ == ""
    """
    p, want = _tree(kinds, "sami")
    if html_tags:
        # <i>/<b>/<u> elements instead of styled spans
        for i, c in enumerate(p.contents):
            if isinstance(c, El) and c.name == "span" and c.attrs:
                c.name = {"font-style:italic;": "i", "font-weight:bold;": "b", "text-decoration:underline;": "u"}[c.attrs["style"]]
                c.attrs = {}
    r = SAMIReader()
    r.line = []
    old = sm.NavigableString
    sm.NavigableString = Leaf
    try:
        r._translate_tag(p, None)
    finally:
        sm.NavigableString = old
    if not _balanced(r.line):
        return "unbalanced style nodes"
    return _cmp(_flags_of_nodes(r.line), want, (0, 1, 2))


# --- SAMI write -> real SAMIParser + SAMIReader (tree builder: html.parser instead of lxml, see ASSUME) ------------
import bs4 as _bs4


def _bs_html(text, features=None, **kw):
    return _bs4.BeautifulSoup(text, "html.parser")


# warm-up outside CrossHair's tracing: bs4 fills its entity tables lazily on first use, and doing that under tracing
# recurses without end in CrossHair's dict proxies
_bs_html("<p>&gt;&amp;&nbsp;&#65;</p>")

SAMI_DOC = ('<SAMI><HEAD><TITLE>t</TITLE><STYLE TYPE="text/css"><!--\n.en-US { lang: en-US; }\n--></STYLE></HEAD>'
            '<BODY><SYNC start="1000"><P class="en-US">%s</P></SYNC><SYNC start="3000"><P class="en-US">&nbsp;</P></SYNC></BODY></SAMI>')


def _sami_rt(kinds):
    r = _build(kinds)
    if r is None:
        return ""
    nodes, want = r
    frag = SAMIWriter()._recreate_text(nodes)
    saved = sm.BeautifulSoup
    sm.BeautifulSoup = _bs_html
    try:
        caps = SAMIReader().read(SAMI_DOC % frag).get_captions("en-US")
    finally:
        sm.BeautifulSoup = saved
    if len(caps) != 1:
        return "number of captions after SAMI -> SAMI"
    if not _balanced(caps[0].nodes):
        return "reader returned unbalanced style nodes"
    got = _flags_of_nodes(caps[0].nodes)
    return _cmp(got, want, (0, 1, 2))


def sami_roundtrip_i4(kinds: list[int]) -> str:
    """
    pre: _dom(kinds, 4)
    post: _ == ""
    """
    return _sami_rt(_expand(kinds, 0))


def sami_roundtrip_b4(kinds: list[int]) -> str:
    """
    pre: _dom(kinds, 4)
    post: _ == ""
    """
    return _sami_rt(_expand(kinds, 1))


def sami_roundtrip_u5(kinds: list[int]) -> str:
    """
    pre: _dom(kinds, 5)
    post: _ == ""
    """
    return _sami_rt(_expand(kinds, 2))


def sami_roundtrip_i6(kinds: list[int]) -> str:
    """
    pre: _dom(kinds, 6)
    post: _ == ""
    """
    return _sami_rt(_expand(kinds, 0, 1))


DFXP_DOC = ('<tt xml:lang="en" xmlns="http://www.w3.org/ns/ttml" xmlns:tts="http://www.w3.org/ns/ttml#styling"><body><div>'
            '<p begin="00:00:01.000" end="00:00:02.000">%s</p></div></body></tt>')


def _dfxp_rt(kinds):
    import warnings
    warnings.simplefilter("ignore")
    r = _build(kinds)
    if r is None:
        return ""
    nodes, want = r
    frag = DFXPWriter()._recreate_text(Caption(0, 1, nodes), dfxp_soup())
    caps = DFXPReader().read(DFXP_DOC % frag).get_captions("en")
    if len(caps) != 1:
        return "number of captions after DFXP -> DFXP"
    if not _balanced(caps[0].nodes):
        return "reader returned unbalanced style nodes"
    return _cmp(_flags_of_nodes(caps[0].nodes), want, (0,))


def dfxp_roundtrip_i4(kinds: list[int]) -> str:
    """
    pre: _dom(kinds, 4)
    post: _ == ""
    """
    return _dfxp_rt(_expand(kinds, 0))


def dfxp_roundtrip_i6(kinds: list[int]) -> str:
    """
    pre: _dom(kinds, 6)
    post: _ == ""
    """
    return _dfxp_rt(_expand(kinds, 0))


# --- captions produced by the SCC reader: balanced style nodes, italic flags as the reference decoder's -------------
def scc_three_rows(gap1: int, gap2: int, it1: bool, it2: bool, it3: bool, dbl: bool) -> str:
    """
    pre: 1 <= gap1 <= 2 and 1 <= gap2 <= 2
    post: _ == ""
    """
    from harness.C05_scc import _three_rows
    return _three_rows(1 if gap1 == 1 else 2, 1 if gap2 == 1 else 2, it1, it2, it3, dbl)


def _combo(c):
    """1..7: bit 0 italics, bit 1 bold, bit 2 underline"""
    d = {}
    if c & 1:
        d["italics"] = True
    if c & 2:
        d["bold"] = True
    if c & 4:
        d["underline"] = True
    return d


def sami_roundtrip_combo(c: int, lead: bool, trail: bool, brk: bool) -> str:
    """
    pre: 1 <= c <= 7
    post: _ == ""
    """
    # one span carrying any combination of italics / bold / underline, written by the SAMI writer and read back
    cc = 1 if c == 1 else (2 if c == 2 else (3 if c == 3 else (4 if c == 4 else (5 if c == 5 else (6 if c == 6 else 7)))))
    st = _combo(cc)
    f = (bool(cc & 1), bool(cc & 2), bool(cc & 4))
    nodes, want = [], []
    if lead:
        nodes.append(CaptionNode.create_text("wa"))
        want += [(ch, (False, False, False)) for ch in "wa"]
    nodes.append(CaptionNode.create_style(True, dict(st)))
    nodes.append(CaptionNode.create_text("wb"))
    want += [(ch, f) for ch in "wb"]
    if brk:
        nodes.append(CaptionNode.create_break())
        nodes.append(CaptionNode.create_text("wc"))
        want += [(ch, f) for ch in "wc"]
    nodes.append(CaptionNode.create_style(False, dict(st)))
    if trail:
        nodes.append(CaptionNode.create_text("wd"))
        want += [(ch, (False, False, False)) for ch in "wd"]
    frag = SAMIWriter()._recreate_text(nodes)
    err, got = _scan(frag, "xml")
    if err:
        return err
    r = _cmp(got, want, (0, 1, 2))
    if r:
        return "written markup: " + r
    saved = sm.BeautifulSoup
    sm.BeautifulSoup = _bs_html
    try:
        caps = SAMIReader().read(SAMI_DOC % frag).get_captions("en-US")
    finally:
        sm.BeautifulSoup = saved
    if len(caps) != 1:
        return "number of captions after SAMI -> SAMI"
    if not _balanced(caps[0].nodes):
        return "reader returned unbalanced style nodes"
    return _cmp(_flags_of_nodes(caps[0].nodes), want, (0, 1, 2))
