"""C05 - SCC pop-on decoding against an independent CEA-608 reference decoder (vlib/ref608.py).

Real code: public SCCReader.read -> _translate_line/_translate_word/_handle_double_command/_translate_command/
_translate_characters/_translate_special_char/_translate_extended_char, InstructionNodeCreator (add_chars,
interpret_command, handle_backspace), _PositioningTracker, _format_italics passes, CaptionCreator.create_and_store,
_get_layout_from_tuple, the tables in scc/constants.py.
Symbolic: indices into the code tables of the standard (every PAC second byte, every basic / special / extended
character), tab offsets, single vs doubled control codes, and the shape of short programs (rows, indents, italics).
Oracle: the reference decoder's screen at the End-Of-Caption: characters, rows (adjacent rows = lines of one
caption, others = separate captions), position of the first row, italic flag per character.
"""
from pycaption.scc import SCCReader
from pycaption.base import CaptionNode
from vlib import ref608 as R

HEADER = "Scenarist_SCC V1.0\n\n"
PAC_FIRST = (0x11, 0x12, 0x15, 0x16, 0x17, 0x10, 0x13, 0x14)


def _double(words):
    """transmission with every control pair sent twice; a preamble and its tab offset are doubled as a unit"""
    out = []
    i = 0
    while i < len(words):
        w = words[i]
        k = R.classify(w)
        if k == "pac" and i + 1 < len(words) and R.classify(words[i + 1]) == "tab":
            out += [w, words[i + 1], w, words[i + 1]]
            i += 2
            continue
        if k in ("misc", "tab", "pac", "midrow", "special", "extended"):
            out += [w, w]
        else:
            out.append(w)
        i += 1
    return out


def _norm(s):
    return " ".join(s.replace("’", "'").split())


def _flags_of_caption(c):
    out = []
    it = False
    for n in c.nodes:
        if n.type_ == CaptionNode.STYLE:
            if n.start:
                if it:
                    return None  # nested / unbalanced
                it = bool(n.content.get("italics"))
            else:
                if not it:
                    return None
                it = False
        elif n.type_ == CaptionNode.TEXT:
            out.extend((ch, it) for ch in n.content.replace("’", "'") if ch != " ")
    if it:
        return None
    return out


def _compare(words, dbl=False, check_pos=True):
    sent = _double(words) if dbl else list(words)
    doc = HEADER + "00:00:01:00\t" + " ".join(sent) + "\n\n00:00:10:00\t" + R.EDM + "\n"
    dec = R.PopOnDecoder()
    screens = dec.feed(sent)
    want = R.captions_of(screens[0]) if screens else []
    try:
        caps = SCCReader().read(doc).get_captions("en-US")
    except Exception as e:
        if not want and type(e).__name__ == "CaptionReadNoCaptions":
            return ""
        return "reader raised " + type(e).__name__
    if len(caps) != len(want):
        return "number of captions (adjacent rows = one caption, others separate)"
    for c, rows in zip(caps, want):
        lines = [_norm(x) for x in "".join(c.get_text_nodes()).split("\n")]
        if lines != [_norm(t) for (_, _, t, _) in rows]:
            return "text / lines"
        if c.start != caps[0].start or c.end != caps[0].end:
            return "captions of one screen must share their times"
        if check_pos:
            row, col = rows[0][0], rows[0][1]
            x, y = R.position(row, col)
            o = c.layout_info.origin if c.layout_info is not None else None
            if o is None or abs(o.x.value - x) > 1e-9 or abs(o.y.value - y) > 1e-9:
                return "position of the first row"
        got = _flags_of_caption(c)
        if got is None:
            return "unbalanced italics"
        ref = []
        for (_, _, t, f) in rows:
            ref.extend((ch.replace("’", "'"), fl) for ch, fl in zip(t, f) if ch != " ")
        if got != ref:
            return "italic flags of the characters"
    return ""


# --- 1. every preamble address code of the standard ----------------------------------------------------------
def _pac_sweep(first, i):
    if first == 0x10 and i >= 32:
        return ""  # 0x10 addresses row 11 only
    pac = R.word(first, 0x40 + i)
    return _compare([R.RCL, pac] + R.chars("ab") + [R.EOC])


def pac_sweep_0(i: int) -> str:
    """
    pre: 0 <= i < 64
    post: _ == ""
    """
    return _pac_sweep(PAC_FIRST[0], i)


def pac_sweep_1(i: int) -> str:
    """
    pre: 0 <= i < 64
    post: _ == ""
    """
    return _pac_sweep(PAC_FIRST[1], i)


def pac_sweep_2(i: int) -> str:
    """
    pre: 0 <= i < 64
    post: _ == ""
    """
    return _pac_sweep(PAC_FIRST[2], i)


def pac_sweep_3(i: int) -> str:
    """
    pre: 0 <= i < 64
    post: _ == ""
    """
    return _pac_sweep(PAC_FIRST[3], i)


def pac_sweep_4(i: int) -> str:
    """
    pre: 0 <= i < 64
    post: _ == ""
    """
    return _pac_sweep(PAC_FIRST[4], i)


def pac_sweep_5(i: int) -> str:
    """
    pre: 0 <= i < 32
    post: _ == ""
    """
    return _pac_sweep(PAC_FIRST[5], i)


def pac_sweep_6(i: int) -> str:
    """
    pre: 0 <= i < 64
    post: _ == ""
    """
    return _pac_sweep(PAC_FIRST[6], i)


def pac_sweep_7(i: int) -> str:
    """
    pre: 0 <= i < 64
    post: _ == ""
    """
    return _pac_sweep(PAC_FIRST[7], i)


def pac_tab_single(row: int, ind: int, to: int, italics: bool) -> str:
    """
    pre: 1 <= row <= 15 and 0 <= ind <= 7 and 0 <= to <= 3 and 4 * ind + to + 2 <= 32
    post: _ == ""
    """
    return _pac_tab(row, ind, to, False, italics)


def pac_tab_doubled(row: int, ind: int, to: int, italics: bool) -> str:
    """
    pre: 1 <= row <= 15 and 0 <= ind <= 7 and 0 <= to <= 3 and 4 * ind + to + 2 <= 32
    post: _ == ""
    """
    return _pac_tab(row, ind, to, True, italics)


def _pac_tab(row, ind, to, dbl, italics):
    pac = R.pac(row, indent=0 if italics else 4 * ind, italics=italics)
    words = [R.RCL, pac] + ([] if to == 0 else [R.word(0x17, 0x20 + to)]) + R.chars("ab") + [R.EOC]
    return _compare(words, dbl)


# --- 2. every character code ----------------------------------------------------------------------------------
def chars_basic(i: int, second: bool) -> str:
    """
    pre: 0x20 <= i <= 0x7E
    post: _ == ""
    """
    w = R.word(0x61, i) if second else R.word(i, 0x61)
    return _compare([R.RCL, R.pac(15, 4)] + R.chars("x ") + [w] + R.chars("yz") + [R.EOC])


def chars_special(i: int, dbl: bool) -> str:
    """
    pre: 0 <= i < 16
    post: _ == ""
    """
    return _compare([R.RCL, R.pac(14, 8)] + R.chars("ab") + [R.word(0x11, 0x30 + i)] + R.chars("cd") + [R.EOC], dbl)


def chars_extended(hi: bool, i: int, dbl: bool) -> str:
    """
    pre: 0 <= i < 32
    post: _ == ""
    """
    # an extended character follows its basic stand-in and replaces it
    return _compare([R.RCL, R.pac(13, 0)] + R.chars("ab") + [R.word(0x13 if hi else 0x12, 0x20 + i)] + R.chars("cd") + [R.EOC], dbl)


# --- 3. short programs: two rows, indents, italics, backspace --------------------------------------------------
def _two_rows(r1, gap, ind1, ind2, it1, it2, dbl):
    words = [R.RCL, R.pac(r1, indent=0 if it1 else 4 * ind1, italics=it1)] + R.chars("first") + \
        [R.pac(r1 + gap, indent=0 if it2 else 4 * ind2, italics=it2)] + R.chars("second") + [R.EOC]
    return _compare(words, dbl)


def two_rows_rows(r1: int, gap: int, it1: bool, it2: bool, dbl: bool) -> str:
    """
    pre: 1 <= r1 <= 12 and 1 <= gap <= 3
    post: _ == ""
    """
    return _two_rows(r1, gap, 0, 2, it1, it2, dbl)


def two_rows_indents(ind1: int, ind2: int, it1: bool, adjacent: bool, even: bool) -> str:
    """
    pre: 0 <= ind1 <= 6 and 0 <= ind2 <= 6
    post: _ == ""
    """
    r1 = 6 if even else 5
    return _two_rows(r1, 1 if adjacent else 2, ind1, ind2, it1, False, False)


def two_rows_tabs(k1: int, k2: int, to1: int, to2: int, adjacent: bool, dbl: bool) -> str:
    """
    pre: 0 <= k1 <= 3 and 0 <= k2 <= 3 and 0 <= to1 <= 2 and 0 <= to2 <= 2
    post: _ == ""
    """
    # k = 3: italic preamble (column 0), else indent 4*k; each row's preamble optionally followed by a tab offset
    def row(r, k, to):
        it = k == 3
        return [R.pac(r, indent=0 if it else 4 * k, italics=it)] + ([] if to == 0 else [R.word(0x17, 0x20 + to)])
    words = [R.RCL] + row(7, k1, to1) + R.chars("first") + row(8 if adjacent else 10, k2, to2) + R.chars("second") + [R.EOC]
    return _compare(words, dbl)


def _three_rows(gap1, gap2, it1, it2, it3, dbl):
    r2 = 3 + gap1
    r3 = r2 + gap2
    words = [R.RCL, R.pac(3, indent=0 if it1 else 4, italics=it1)] + R.chars("one") + \
        [R.pac(r2, indent=0 if it2 else 8, italics=it2)] + R.chars("two") + \
        [R.pac(r3, indent=0 if it3 else 4, italics=it3)] + R.chars("three") + [R.EOC]
    return _compare(words, dbl)


def three_rows(gap1: int, gap2: int, it1: bool, it2: bool, it3: bool, dbl: bool) -> str:
    """
    pre: 1 <= gap1 <= 2 and 1 <= gap2 <= 2
    post: _ == ""
    """
    return _three_rows(1 if gap1 == 1 else 2, 1 if gap2 == 1 else 2, it1, it2, it3, dbl)


ROWSETS = (((14, 0),), ((14, 0), (15, 0)), ((13, 4), (14, 8)), ((5, 0),), ((15, 0),), ((14, 4),), ((15, 4),), ((12, 8),))


def _rowset(i):
    if i == 0:
        return ROWSETS[0]
    if i == 1:
        return ROWSETS[1]
    if i == 2:
        return ROWSETS[2]
    if i == 3:
        return ROWSETS[3]
    if i == 4:
        return ROWSETS[4]
    if i == 5:
        return ROWSETS[5]
    if i == 6:
        return ROWSETS[6]
    return ROWSETS[7]


def two_captions(k1: int, k2: int, enm: bool, dbl: bool) -> str:
    """
    pre: 0 <= k1 < 8 and 0 <= k2 < 8
    post: _ == ""
    """
    # two consecutive pop-on captions: the second one's rows lie above, on, or directly below the first one's;
    # each caption is positioned at its own first row, whatever the previous caption's rows were
    def cap(rows, tag):
        ws = ([R.ENM] if enm else []) + [R.RCL]
        for k, (r, ind) in enumerate(rows):
            ws += [R.pac(r, indent=ind)] + R.chars(tag + "xyz"[k])
        return ws + [R.EOC]
    w1, w2 = cap(_rowset(k1), "a"), cap(_rowset(k2), "b")
    s1, s2 = (_double(w1), _double(w2)) if dbl else (w1, w2)
    doc = HEADER + "00:00:01:00\t" + " ".join(s1) + "\n\n00:00:05:00\t" + " ".join(s2) + "\n\n00:00:10:00\t" + R.EDM + "\n"
    screens = R.PopOnDecoder().feed(s1 + s2)
    want = []
    for scr in screens:
        for rows in R.captions_of(scr):
            x, y = R.position(rows[0][0], rows[0][1])
            want.append(("\n".join(_norm(t) for (_, _, t, _) in rows), x, y))
    try:
        caps = SCCReader().read(doc).get_captions("en-US")
    except Exception as e:
        return "reader raised " + type(e).__name__
    if len(caps) != len(want):
        return "number of captions"
    for c, (t, x, y) in zip(caps, want):
        if "\n".join(_norm(z) for z in c.get_text().split("\n")) != t:
            return "text / lines"
        o = c.layout_info.origin if c.layout_info is not None else None
        if o is None or abs(o.x.value - x) > 1e-9 or abs(o.y.value - y) > 1e-9:
            return "position of a caption that follows another caption"
    return ""


def public_two_captions(k1, k2, enm, dbl):
    return two_captions(k1, k2, enm, dbl)


def two_rows(r1: int, gap: int, ind1: int, ind2: int, it1: bool, it2: bool, dbl: bool) -> str:
    """
    pre: (r1 == 1 or r1 == 6 or r1 == 12) and 1 <= gap <= 3 and 0 <= ind1 <= 6 and 0 <= ind2 <= 6
    post: _ == ""
    """
    return _two_rows(r1, gap, ind1, ind2, it1, it2, dbl)


def midrow_italics(on_at: int, off_at: int, dbl: bool, row: int) -> str:
    """
    pre: 0 <= on_at <= 2 and 0 <= off_at <= 2 and 1 <= row <= 15
    post: _ == ""
    """
    # words "aa", "bb", "cc": italics switched on before word on_at, and off (plain white mid-row code) after
    # word off_at (if off_at >= on_at)
    parts = []
    for k, t in enumerate(("aa", "bb", "cc")):
        if k == on_at:
            parts.append(R.midrow(True))
        parts += R.chars(t)
        if k == off_at and off_at >= on_at:
            parts.append(R.midrow(False))
    return _compare([R.RCL, R.pac(row, 4)] + parts + [R.EOC], dbl)


def backspace(n_before: int, n_bs: int, dbl: bool) -> str:
    """
    pre: 1 <= n_before <= 3 and 0 <= n_bs <= 2
    post: _ == ""
    """
    # backspaces are separated by a character pair (two identical control codes in a row are one code, sent twice)
    words = [R.RCL, R.pac(15, 0)] + R.chars("ab" * n_before)
    for k in range(n_bs):
        words += [R.BS] + R.chars("q" + "rs"[k])
    words += R.chars("yz") + [R.EOC]
    return _compare(words, dbl)


# --- 4. the italics normalisation passes alone -------------------------------------------------------------------
def format_italics4(kinds: list[int]) -> str:
    """
    pre: len(kinds) == 4 and all(0 <= k <= 4 for k in kinds)
    post: _ == ""
    """
    return _format_italics_check(kinds)


def format_italics5(kinds: list[int]) -> str:
    """
    pre: len(kinds) == 5 and all(0 <= k <= 4 for k in kinds)
    post: _ == ""
    """
    return _format_italics_check(kinds)


def _format_italics_check(kinds):
    from pycaption.scc.specialized_collections import _InstructionNode as N, _format_italics
    nodes = []
    want = []
    it = False
    ntext = 0
    for i, k in enumerate(kinds):
        if k == 0:
            t = "t%d" % i
            nodes.append(N.create_text((1, 0), t))
            want.append((t, it))
            ntext += 1
        elif k == 1:
            nodes.append(N.create_break((1, 0)))
        elif k == 2:
            nodes.append(N.create_italics_style((1, 0), turn_on=True))
            it = True
        elif k == 3:
            nodes.append(N.create_italics_style((1, 0), turn_on=False))
            it = False
        else:
            nodes.append(N.create_repositioning_command((2, 0)))
    if ntext == 0:
        return ""
    out = _format_italics(nodes)
    got = []
    on = False
    for n in out:
        if n.sets_italics_on():
            if on:
                return "italics opened twice"
            on = True
        elif n.sets_italics_off():
            if not on:
                return "italics closed without being open"
            on = False
        elif n.requires_repositioning():
            if on:
                return "italics span crosses a repositioning"
        elif n.is_text_node():
            got.append((n.text, on))
    if on:
        return "italics left open"
    return "" if got == want else "italic flag of a text changed"


def chars_solid_block(second: bool) -> str:
    """
    post: _ == ""
    """
    # basic character 0x7F is the solid block
    w = R.word(0x61, 0x7F) if second else R.word(0x7F, 0x61)
    return _compare([R.RCL, R.pac(15, 4)] + R.chars("x ") + [w] + R.chars("yz") + [R.EOC])
