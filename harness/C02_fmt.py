"""C02 - timestamp formatters: all instants below 24 h (WebVTT: also the hour-less form).

Real functions executed: Caption.format_start/format_end -> Caption._format_timestamp,
WebVTTWriter._timestamp.  `format()` of symbolic ints is kept symbolic by vlib/chfmt.py.
Oracle: the written fields, read back as decimal numbers, denote us // 1000 with
minutes, seconds < 60, every field made of ASCII digits only, fixed widths 2/2/2/3.
"""
from pycaption.base import Caption, CaptionNode
from pycaption.webvtt import WebVTTWriter
from harness.hlib import num, hms_ok


def _cap(a, b):
    return Caption(a, b, [CaptionNode.create_text("x")])


def fmt_start_dot(us: int) -> str:
    """
    pre: 0 <= us < 86400000000
    post: _ == ""
    """
    s = _cap(us, us).format_start()
    if len(s) != 12:
        return "len"
    return hms_ok(s, 0, ".", us)


def fmt_start_comma(us: int) -> str:
    """
    pre: 0 <= us < 86400000000
    post: _ == ""
    """
    s = _cap(us, us).format_start(msec_separator=",")
    if len(s) != 12:
        return "len"
    return hms_ok(s, 0, ",", us)


def fmt_end_dot(us: int) -> str:
    """
    pre: 0 <= us < 86400000000
    post: _ == ""
    """
    s = _cap(0, us).format_end()
    if len(s) != 12:
        return "len"
    return hms_ok(s, 0, ".", us)


def fmt_end_comma(us: int) -> str:
    """
    pre: 0 <= us < 86400000000
    post: _ == ""
    """
    s = _cap(0, us).format_end(msec_separator=",")
    if len(s) != 12:
        return "len"
    return hms_ok(s, 0, ",", us)


# --- WebVTT ---------------------------------------------------------------
def vtt_short(us: int) -> str:
    """
    pre: 0 <= us < 3600000000
    post: _ == ""
    """
    s = WebVTTWriter()._timestamp(us)
    if not (len(s) == 9 and s[2] == ":" and s[5] == "."):
        return "shape"
    if num(s, 0, 2) != us // 60000000 % 60:
        return "minutes"
    if num(s, 3, 5) != us // 1000000 % 60:
        return "seconds"
    if num(s, 6, 9) != us // 1000 % 1000:
        return "millis"
    return ""


def vtt_long(us: int) -> str:
    """
    pre: 3600000000 <= us < 86400000000
    post: _ == ""
    """
    s = WebVTTWriter()._timestamp(us)
    if len(s) != 12:
        return "len"
    return hms_ok(s, 0, ".", us)
