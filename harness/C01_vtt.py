"""C01 - WebVTT: public WebVTTReader.read on document templates with ONE symbolic stamp per
contract, a symbolic time shift, both values of ignore_timing_errors.

Oracle from the WebVTT grammar: [H+:]MM:SS.mmm denotes ((H*60+MM)*60+SS)*10^6 + mmm*1000 us;
every instant is moved by time_shift_milliseconds*1000; one caption per cue with text, in order;
NOTE blocks, cue identifiers and cue settings do not change times.
"""
from pycaption import WebVTTReader
from pycaption.exceptions import CaptionReadError
from harness.hlib import digits_str, is_digits


def _val(hd, rest, frac):
    h = 0
    for d in hd:
        h = h * 10 + d
    mm = rest[0] * 10 + rest[1]
    ss = rest[2] * 10 + rest[3]
    ms = frac[0] * 100 + frac[1] * 10 + frac[2]
    return ((h * 60 + mm) * 60 + ss) * 1000000 + ms * 1000


def _stamp(hd, rest, frac):
    s = (digits_str(hd) + ":") if len(hd) else ""
    return s + digits_str(rest[0:2]) + ":" + digits_str(rest[2:4]) + "." + digits_str(frac)


def _pre(hd, nh, rest, frac):
    return is_digits(hd, nh) and is_digits(rest, 4) and is_digits(frac, 3)


def _check(reader, doc, want):
    caps = reader.read(doc).get_captions("en-US")
    if len(caps) != len(want):
        return "count"
    for c, w in zip(caps, want):
        if c.start != w[0]:
            return "start"
        if c.end != w[1]:
            return "end"
        if c.get_text() != w[2]:
            return "text"
    return ""


def vtt_c1_start(hd: list[int], rest: list[int], frac: list[int], note: bool, shift: int) -> str:
    """
    pre: _pre(hd, 2, rest, frac) and -100000000 <= shift <= 100000000
    post: _ == ""
    """
    doc = ("WEBVTT\n\n" + ("NOTE a comment\nspanning lines\n\n" if note else "")
           + _stamp(hd, rest, frac) + " --> 99:59:59.999\nfoo\nbar\n\n"
           + "id2\n00:03.000 --> 00:04.500 align:left size:50%\nbaz\n")
    sh = shift * 1000
    return _check(WebVTTReader(time_shift_milliseconds=shift), doc,
                  [(_val(hd, rest, frac) + sh, 359999999000 + sh, "foo\nbar"), (3000000 + sh, 4500000 + sh, "baz")])


def vtt_c1_end_short(rest: list[int], frac: list[int], ident: bool, shift: int) -> str:
    """
    pre: _pre([], 0, rest, frac) and -100000000 <= shift <= 100000000
    post: _ == ""
    """
    doc = ("WEBVTT\n\n" + ("cue-1\n" if ident else "")
           + "00:00.000 --> " + _stamp([], rest, frac) + "\nfoo\n\n"
           + "00:03.000 --> 00:04.500 position:10% line:5%\nbaz\n")
    sh = shift * 1000
    return _check(WebVTTReader(time_shift_milliseconds=shift), doc,
                  [(sh, _val([], rest, frac) + sh, "foo"), (3000000 + sh, 4500000 + sh, "baz")])


def vtt_c2_start_h1(hd: list[int], rest: list[int], frac: list[int], trailing: bool) -> str:
    """
    pre: _pre(hd, 1, rest, frac)
    post: _ == ""
    """
    doc = ("WEBVTT\n\n00:01.000 --> 00:02.000\nfoo\n\n" + _stamp(hd, rest, frac) + " --> 99:59:59.999\nbaz\nqux"
           + ("\n\n" if trailing else ""))
    return _check(WebVTTReader(), doc, [(1000000, 2000000, "foo"), (_val(hd, rest, frac), 359999999000, "baz\nqux")])


def vtt_c2_end_h3(hd: list[int], rest: list[int], frac: list[int]) -> str:
    """
    pre: _pre(hd, 3, rest, frac)
    post: _ == ""
    """
    doc = ("WEBVTT\n\n00:01.000 --> 00:02.000\nfoo\n\n00:02.000 --> " + _stamp(hd, rest, frac) + " size:50%\nbaz\n\n"
           "01:02:03.004 --> 01:02:03.005\nlast\n")
    return _check(WebVTTReader(), doc, [(1000000, 2000000, "foo"), (2000000, _val(hd, rest, frac), "baz"),
                                        (3723004000, 3723005000, "last")])


def vtt_strict(hd: list[int], rest: list[int], frac: list[int]) -> str:
    """
    pre: _pre(hd, 2, rest, frac)
    post: _ == ""
    """
    # ignore_timing_errors=False: a cue whose start exceeds its end, or precedes the previous
    # cue's start, is rejected; otherwise the same instants as above are returned
    v = _val(hd, rest, frac)
    doc = ("WEBVTT\n\n00:00:05.000 --> 00:00:06.000\nfoo\n\n" + _stamp(hd, rest, frac) + " --> 01:00:00.000\nbaz\n")
    try:
        r = _check(WebVTTReader(ignore_timing_errors=False), doc, [(5000000, 6000000, "foo"), (v, 3600000000, "baz")])
    except CaptionReadError:
        return "" if (v > 3600000000 or v < 5000000) else "spurious timing error"
    if v > 3600000000 or v < 5000000:
        return "timing error not raised"
    return r


def vtt_strict_shift(hd: list[int], rest: list[int], frac: list[int], shift: int) -> str:
    """
    pre: _pre(hd, 2, rest, frac) and 0 <= shift <= 100000000
    post: _ == ""
    """
    # strict timing checks together with a time shift: the checks are about the document's own order (a shift moves
    # every instant alike), the returned instants are the shifted ones
    v = _val(hd, rest, frac)
    doc = ("WEBVTT\n\n00:00:05.000 --> 00:00:06.000\nfoo\n\n" + _stamp(hd, rest, frac) + " --> 01:00:00.000\nbaz\n")
    sh = shift * 1000
    bad = v > 3600000000 or v < 5000000
    try:
        r = _check(WebVTTReader(ignore_timing_errors=False, time_shift_milliseconds=shift), doc,
                   [(5000000 + sh, 6000000 + sh, "foo"), (v + sh, 3600000000 + sh, "baz")])
    except CaptionReadError:
        return "" if bad else "spurious timing error on a well-ordered document when a time shift is configured"
    if bad:
        return "timing error not raised"
    return r
