"""C04 - SAMI two-stage parse: what stage 1 (SAMIParser, an html.parser.HTMLParser that re-serialises
the document) emits for a character/entity reference followed by data must be inert for stage 2
(BeautifulSoup/lxml, which decodes references once): decode2(stage1(ref) + stage1(data)) == char + data.

Real code: SAMIParser.handle_entityref, handle_charref, handle_data.  Stage 2 is replaced by its contract:
an HTML text decoder that decodes each reference once (reference decoder below; named references of the
stub table, decimal and hex numeric references) and treats '<' as markup.
"""
from pycaption.sami import SAMIParser
from harness.ref_text import text_of

NAMED = (("amp", "&"), ("lt", "<"), ("gt", ">"), ("quot", '"'), ("apos", "'"), ("nbsp", "\u00a0"), ("copy", "\u00a9"), ("eacute", "\u00e9"),
         ("Eacute", "\u00c9"), ("Omega", "\u03a9"), ("Prime", "\u2033"))   # names that differ from another name only by case


def _data_dom(cps, lo, hi):
    # character data between references: no '&' and no '<' (the tokenizer would not hand those over as data)
    if not (lo <= len(cps) <= hi):
        return False
    ok = True
    for c in cps:
        ok = ok & ((((32 <= c) & (c <= 126)) | ((160 <= c) & (c <= 767))) & (c != 38) & (c != 60))
    return ok


def decode2(s):
    """HTML text decoding, once: returns (ok, text); a raw '<' is markup (ok False)"""
    out = ""
    i = 0
    n = len(s)
    while i < n:
        c = s[i]
        if c == "<":
            return False, out
        if c == "&":
            hit = False
            for name, ch in NAMED:
                ref = "&" + name + ";"
                if s.startswith(ref, i):
                    out += ch
                    i += len(ref)
                    hit = True
                    break
            if not hit and s.startswith("&#", i):
                j = i + 2
                v = 0
                nd = 0
                while j < n and "0" <= s[j] <= "9":
                    v = v * 10 + (ord(s[j]) - 48)
                    j += 1
                    nd += 1
                if nd > 0 and j < n and s[j] == ";":
                    out += chr(v)
                    i = j + 1
                    hit = True
            if not hit:
                out += "&"
                i += 1
        else:
            out += c
            i += 1
    return True, out


def _pick_name(i):
    if i == 0:
        return NAMED[0]
    if i == 1:
        return NAMED[1]
    if i == 2:
        return NAMED[2]
    if i == 3:
        return NAMED[3]
    if i == 4:
        return NAMED[4]
    if i == 5:
        return NAMED[5]
    if i == 6:
        return NAMED[6]
    if i == 7:
        return NAMED[7]
    if i == 8:
        return NAMED[8]
    if i == 9:
        return NAMED[9]
    return NAMED[10]


def sami_entityref(i: int, cps: list[int]) -> str:
    """
    pre: 0 <= i < 11 and _data_dom(cps, 0, 3)
    post: _ == ""
    """
    name, ch = _pick_name(i)
    data = text_of(cps)
    p = SAMIParser()
    p.handle_data("x")
    p.handle_entityref(name)
    if data:
        p.handle_data(data)
    ok, shown = decode2(p.sami)
    if not ok:
        return "stage 1 emitted markup"
    return "" if shown == "x" + ch + data else "decoded twice or lost"


def sami_charref_dec(d: list[int], cps: list[int]) -> str:
    """
    pre: 2 <= len(d) <= 3 and all(0 <= x <= 9 for x in d) and d[0] >= 1 and _data_dom(cps, 0, 3)
    post: _ == ""
    """
    v = 0
    for x in d:
        v = v * 10 + x
    if v < 32 or 127 <= v < 160:
        return ""
    name = "".join(chr(48 + x) for x in d)
    data = text_of(cps)
    p = SAMIParser()
    p.handle_charref(name)
    if data:
        p.handle_data(data)
    ok, shown = decode2(p.sami)
    if not ok:
        return "stage 1 emitted markup"
    return "" if shown == chr(v) + data else "decoded twice or lost"


HEXREFS = (("x26", "&"), ("x3c", "<"), ("x3E", ">"), ("x41", "A"), ("xe9", "\u00e9"), ("x22", '"'))


def _pick_hex(i):
    if i == 0:
        return HEXREFS[0]
    if i == 1:
        return HEXREFS[1]
    if i == 2:
        return HEXREFS[2]
    if i == 3:
        return HEXREFS[3]
    if i == 4:
        return HEXREFS[4]
    return HEXREFS[5]


def sami_charref_hex(i: int, cps: list[int]) -> str:
    """
    pre: 0 <= i < 6 and _data_dom(cps, 0, 3)
    post: _ == ""
    """
    name, ch = _pick_hex(i)
    data = text_of(cps)
    p = SAMIParser()
    p.handle_charref(name)
    if data:
        p.handle_data(data)
    ok, shown = decode2(p.sami)
    if not ok:
        return "stage 1 emitted markup"
    return "" if shown == ch + data else "decoded twice or lost"


# --- public API replay: the same reference + data inside a real SAMI document ------------
def _public(ref, ch, data):
    from pycaption import SAMIReader
    doc = ('<SAMI><HEAD><STYLE TYPE="text/css"><!-- .ENCC {Name: English; lang: en-US;} --></STYLE></HEAD><BODY>'
           '<SYNC start=1000><P class=ENCC>x' + ref + data + '</P></SYNC></BODY></SAMI>')
    got = SAMIReader().read(doc).get_captions("en-US")[0].get_text()
    want = ("x" + ch + data).strip()
    if got != want:
        return f"document text {('x' + ref + data)!r} read as {got!r}, a browser shows {want!r}"
    if ch == "<" and not data.startswith("i>"):
        # lxml forgives a lone '<'; the same stage-1 output turns into markup as soon as a name follows
        return _public(ref, ch, "i>z")
    return ""


def public_sami_entityref(i, cps):
    name, ch = NAMED[i]
    return _public("&" + name + ";", ch, text_of(cps))


def public_sami_charref_dec(d, cps):
    v = int("".join(str(x) for x in d))
    return _public("&#" + str(v) + ";", chr(v), text_of(cps))


def public_sami_charref_hex(i, cps):
    name, ch = HEXREFS[i]
    return _public("&#" + name + ";", ch, text_of(cps))
