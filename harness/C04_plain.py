"""C04 - SRT and MicroDVD: public read() with symbolic text lines; text passes through verbatim,
SRT newlines and MicroDVD '|' become line breaks.  Equality up to trimming each line."""
from pycaption import SRTReader, MicroDVDReader
from pycaption.base import CaptionNode
from harness.ref_text import printable, text_of


def _lines(caption):
    out = [""]
    for n in caption.nodes:
        if n.type_ == CaptionNode.BREAK:
            out.append("")
        elif n.type_ == CaptionNode.TEXT:
            out[-1] += n.content
    return [x.strip() for x in out]


def srt_read_text(a: list[int], b: list[int]) -> str:
    """
    pre: printable(a, 1, 3) and printable(b, 1, 2)
    post: _ == ""
    """
    la, lb = text_of(a), text_of(b)
    if la.strip() == "" or lb.strip() == "":
        return ""  # a blank line ends the block: not a text line
    doc = "1\n00:00:01,000 --> 00:00:02,000\n" + la + "\n" + lb + "\n\n2\n00:00:03,000 --> 00:00:04,000\ntail\n"
    caps = SRTReader().read(doc).get_captions("en-US")
    if len(caps) != 2:
        return "cue count"
    if _lines(caps[0]) != [la.strip(), lb.strip()]:
        return "lines"
    if caps[1].get_text() != "tail":
        return "tail"
    return ""


def mdvd_read_text(a: list[int], b: list[int]) -> str:
    """
    pre: printable(a, 1, 3) and printable(b, 1, 2)
    post: _ == ""
    """
    la, lb = text_of(a), text_of(b)
    if "|" in la or "|" in lb:
        return ""
    doc = "{25}{50}" + la + "|" + lb + "\n{75}{100}tail\n"
    caps = MicroDVDReader().read(doc).get_captions("und")
    if len(caps) != 2:
        return "cue count"
    if _lines(caps[0]) != [la.strip(), lb.strip()]:
        return "lines"
    if caps[1].get_text() != "tail":
        return "tail"
    return ""
