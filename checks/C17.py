import sys
sys.path[:0] = ["/verif"]
from vlib.run import ch, smt, run_check, tier_from_argv, only_from_argv
from vlib import chre

PID = "C17"
F = ("SCCWriter.write (PASS 1-3)", "_text_to_code", "_layout_line", "_print_character", "_maybe_align", "_maybe_space", "_format_timestamp",
     "CHARACTER_TO_CODE", "PAC_HIGH_BYTE_BY_ROW", "PAC_LOW_BYTE_BY_ROW_RESTRICTED", "SCCReader.read")
E2 = "E2 fplia (ASTs of SCCWriter.write + _format_timestamp -> QF_LIA, z3)"


def obligations(tier):
    q = tier == "quick"
    T = 600 if q else 2400
    obs = [
        ch("layout3", "harness.C17_sccwriter", timeout=T, functions=F, exhaustive=True,
           bounds="captions of three words with lengths out of {1,2,3,4,5,7,31,32,33,40}: hex words, odd parity, rows 1-15 consecutive ending at row 15, rows <= 32 columns, breaks only at spaces unless a word exceeds 32"),
        ch("layout_long", "harness.C17_sccwriter", timeout=T, functions=F, exhaustive=True, bounds="4-10 words (two alternating lengths): up to several rows; the output is read back (rows of exactly 32 columns included)"),
        ch("charset", "harness.C17_sccwriter", timeout=T, functions=F, exhaustive=True, bounds="every character of the CEA-608 basic table (0x20-0x7E) at three positions in a word: write then read gives it back"),
        ch("reread2", "harness.C17_sccwriter", timeout=T, functions=F, exhaustive=True,
           bounds="two captions (one or two lines) 3 s / 1.6 s / 1 s / 0.7 s / 0.4 s / 0.2 s / 0.1 s / 0 s apart (the closer ones end inside the next cue's loading time): same words in order, one caption each, timecodes non-decreasing, each visible within three frames of its start"),
        ch("single_caption_start", "harness.C17_sccwriter", timeout=T, functions=F, exhaustive=True, bounds="one caption at 5 s, 20 s, 1 h, 23 h 53 min: visible within three frames"),
    ]
    bands = [(20000000, 20999999), (3599500000, 3600500000), (59500000, 60500000)]
    if not q:
        bands += [(1000000, 1999999), (86398000000, 86399000000), (35999500000, 36000500000), (600000000, 600999999), (7777000000, 7777999999)]
    for lo, hi in bands:
        obs.append(smt(f"timecode_{lo // 1000000}s", "smt.C17_fp", "write_timecode", args=dict(smin=lo, smax=hi), timeout=1200, engine=E2))
    return obs


ASSUME = [
    "oracle: vlib/ref608.py (parity, PAC row decoding, basic character table) and the statement",
    "E1: texts and instants are finite choices (word lengths around the 32-column limit, spacings from sparse to just feasible)",
    "E2: the float chain of _format_timestamp (four floors) forks into too many exponent cases for the whole 24 h range; it is decided on one-second bands (around 20 s, the minute carry at 60 s and the hour carry at 1 h; more bands in thorough) for every integer microsecond in the band: fields valid (MM, SS < 60, FF < 30) and the End-Of-Caption word within three frames of the start under the reader's arithmetic; the text layout functions are called natively (they do not touch the symbolic start)",
    "characters outside the basic table and more than one language are outside the statement",
]

if __name__ == "__main__":
    tier = tier_from_argv()
    obs = obligations(tier)
    only = only_from_argv()
    if only:
        obs = [o for o in obs if only in o.name]
    sys.exit(run_check(PID, obs, tier, selftests=[chre.selftest], assumptions=ASSUME,
                       level_text="bounded symbolic execution of the SCC writer's structure and write-then-read, exact-LIA checking of its timecode arithmetic on bands of instants"))
