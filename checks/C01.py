import sys
sys.path[:0] = ["/verif"]
from vlib.run import ch, smt, run_check, tier_from_argv, only_from_argv
from vlib import chfmt, chre

PID = "C01"


def obligations(tier):
    q = tier == "quick"
    T = 150 if q else 600
    obs = []
    SRT = ("pycaption.srt.SRTReader.read", "SRTReader._srttomicro", "SRTReader._find_text_line")
    for f, b in (("srt_c1_start", "cue 1 start"), ("srt_c1_end", "cue 1 end, LF/CRLF"), ("srt_c2_start", "cue 2 start"),
                 ("srt_c2_end", "cue 2 end of 3 cues"), ("srt_h1", "1 hour digit"), ("srt_h3", "3 hour digits"),
                 ("srt_nofrac", "no fraction")):
        obs.append(ch(f, "harness.C01_srt", timeout=T, functions=SRT,
                      bounds=f"all 10^9 stamps of the shape ({b}); other stamps concrete; 2-3 cues"))
    VTT = ("pycaption.webvtt.WebVTTReader.read", "_parse", "_parse_timing_line", "_parse_timestamp", "microseconds",
           "TIMING_LINE_PATTERN", "TIMESTAMP_PATTERN")
    for f, b in (("vtt_c1_start", "HH:MM:SS.mmm, NOTE block, symbolic shift"), ("vtt_c1_end_short", "MM:SS.mmm, cue id, symbolic shift"),
                 ("vtt_c2_start_h1", "H:MM:SS.mmm"), ("vtt_c2_end_h3", "HHH:MM:SS.mmm + cue settings"),
                 ("vtt_strict", "ignore_timing_errors=False"), ("vtt_strict_shift", "ignore_timing_errors=False with a symbolic shift of 0..10^8 ms")):
        obs.append(ch(f, "harness.C01_vtt", timeout=T, functions=VTT,
                      bounds=f"all stamps of the shape ({b}); |shift| <= 10^8 ms; 2-3 cues"))
    DF = ("pycaption.dfxp.base.DFXPReader._find_and_convert_times", "_convert_timestamp_to_microseconds",
          "_convert_clock_time_to_microseconds", "TIME_EXPRESSION_PATTERN")
    for f in ("clock_f0", "clock_f1", "clock_f2", "clock_f3", "clock_f4", "clock_f6", "begin_end", "begin_dur", "end_wins_over_dur"):
        obs.append(ch(f, "harness.C01_dfxp", timeout=T, functions=DF, bounds="all digit values of the clock-time shape named by the obligation"))
    if not q:
        obs.append(ch("clock_f8", "harness.C01_dfxp", timeout=T, functions=DF, bounds="4 hour digits, 8 fraction digits"))
    obs.append(ch("dfxp_structure", "harness.C01_dfxp", timeout=max(T, 420), functions=("pycaption.dfxp.base.DFXPReader.read", "_translate_div", "_translate_p_tag", "_find_and_convert_times"), exhaustive=True,
                  bounds="3 paragraphs; paragraphs 1-2 each one of 4 timing kinds (begin+end, begin+dur, begin only, no begin) x 4 content kinds, through the real DFXPReader on html.parser (256 structures): one caption per timed paragraph with content, in document order, nothing else"))
    obs.append(ch("mdvd_structure", "harness.C01_mdvd", timeout=T, functions=("pycaption.microdvd.MicroDVDReader.read", "detect"), exhaustive=True,
                  bounds="3 header kinds x 3 line kinds^3 x line ending: one caption per cue line in order; header {1}{1}fps and DEFAULT lines produce none"))
    SA = ("pycaption.sami.SAMIReader._translate_lang",)
    obs.append(ch("sami_2", "harness.C01_sami", timeout=T, functions=SA, exhaustive=True,
                  bounds="2 syncs, all instants < 100 h in ms, 5 paragraph shapes per sync"))
    obs.append(ch("sami_3", "harness.C01_sami", timeout=T, functions=SA, exhaustive=True,
                  bounds="3 syncs, all instants < 100 h in ms, 5 paragraph shapes per sync (125 structures)"))
    # E2: float kernels
    for fps in (["25.0", "23.976", "24", "29.97"] if q else ["25.0", "25", "23.976", "23.98", "24", "29.97", "30", "50", "59.94", "60", "12.5", "15", "100", "119.88"]):
        for which in ("start", "end"):
            obs.append(smt(f"microdvd_{which}_fps_{fps}", "smt.C01_fp", "microdvd_read_public", args=dict(fps_text=fps, which=which, nmax=90000000),
                           timeout=600, engine="E2 fplia (AST of read() + inlined helpers -> QF_LIA, z3)"))
    for met in ("h", "m", "s", "ms", "f"):
        for k in ((0, 1, 3) if q else (0, 1, 2, 3, 4, 6)):
            obs.append(smt(f"ttml_offset_{met}_k{k}", "smt.C01_fp", "dfxp_offset", args=dict(metric=met, k=k, pmax=10**6 - 1 if k <= 3 else 10**9),
                           timeout=600, engine="E2 fplia (AST -> QF_LIA, z3)"))
    obs.append(smt("timestamp_grammars", "smt.C01_re", "timestamp_grammars", args=dict(maxlen=24 if q else 40), timeout=600,
                   engine="E3 re2smt (compiled regexes -> z3 regex terms, language inclusion)"))
    for k in ((1, 2, 3, 6) if q else (1, 2, 3, 4, 5, 6, 7, 9)):
        obs.append(smt(f"ttml_clock_fraction_k{k}", "smt.C01_fp", "dfxp_clock_fraction", args=dict(k=k, hmax=99 if q else 999), timeout=600,
                       engine="E2 fplia (AST -> QF_LIA, z3)"))
    obs.append(smt("ttml_clock_frames", "smt.C01_fp", "dfxp_clock_frames", args=dict(hmax=999), timeout=600,
                   engine="E2 fplia (AST -> QF_LIA, z3)"))
    return obs


ASSUME = [
    "CrossHair 0.0.110 + z3 4.x as the deciding engine; CrossHair's model of str/int/list/re (regex matcher repaired by vlib/chre.py, self-tested against CPython re every run)",
    "one stamp position is symbolic per contract, the other stamps of the template are concrete",
    "bs4/lxml attribute extraction and tree building are outside (contract: attribute text is handed over verbatim); SAMI text conversion stubbed (C04)",
    "float(<numeral text>) in SAMIReader._translate_lang is stubbed by its contract (the numeral's value)",
    "E2: finite, normal doubles; MicroDVD frame numbers <= 9*10^7 (1000 h at 25 fps) through the public read() with one symbolic frame number, TTML counts < 10^6 with k fraction digits",
    "TTML frame rate fixed at 30 (the reader ignores ttp:frameRate); tick metric 't' unsupported by the reader (NotImplementedError), outside the statement",
]

if __name__ == "__main__":
    tier = tier_from_argv()
    obs = obligations(tier)
    only = only_from_argv()
    if only:
        obs = [o for o in obs if only in o.name]
    sys.exit(run_check(PID, obs, tier, selftests=[chfmt.selftest, chre.selftest], assumptions=ASSUME,
                       level_text="bounded symbolic checking of the real reader code: CrossHair paths + exact-LIA float kernels"))
