import sys
sys.path[:0] = ["/verif"]
from vlib.run import ch, run_check, tier_from_argv, only_from_argv
from vlib import chre

PID = "C11"
FN = {"dfxp": ("DFXPWriter._recreate_text", "_recreate_span", "dfxp.base._recreate_style"),
      "sami": ("SAMIWriter._recreate_text", "_recreate_line_style", "_recreate_span", "_recreate_style"),
      "vtt": ("WebVTTWriter._group_cues_by_layout", "_convert_style_to_text_tag", "_calculate_resulting_style")}


def obligations(tier):
    q = tier == "quick"
    T = 500 if q else 2400
    n = 4 if q else 6
    obs = []
    for w, styles in (("dfxp", "i"), ("sami", "ibu"), ("vtt", "ibu")):
        for st in styles:
            for k in ((4,) if q else (5, 6)):
                obs.append(ch(f"{w}_write_{st}{k}", "harness.C11_styles", timeout=T, functions=FN[w], exhaustive=True,
                              bounds=f"all flat balanced sequences of {k} nodes over TEXT / BREAK / START / END of a {'italic' if st == 'i' else 'bold' if st == 'b' else 'underline'} span"))
        obs.append(ch(f"{w}_write_mixed", "harness.C11_styles", timeout=T, functions=FN[w], exhaustive=True,
                      bounds="two adjacent spans of any two styles, separated by nothing / text / a break, with optional leading and trailing text"))
    obs.append(ch("dfxp_read", "harness.C11_styles", timeout=T, functions=("DFXPReader._convert_tag_to_node", "_convert_span_to_nodes", "_convert_style"), exhaustive=True,
                  bounds="paragraph with 3 children out of text / br / italic span / bold span with a br inside / underline span / plain span"))
    obs.append(ch("sami_read", "harness.C11_styles", timeout=T, functions=("SAMIReader._translate_tag", "_translate_span", "_translate_attrs", "_translate_style", "_translate_css_property"), exhaustive=True,
                  bounds="same trees with styled spans or <i>/<b>/<u> elements"))
    RT = ("SAMIWriter._recreate_text", "SAMIParser.feed/handle_starttag/handle_endtag/handle_data", "SAMIReader.read", "_translate_lang", "_translate_tag", "_translate_span")
    for nm in (("i4", "b4") if q else ("i4", "b4", "u5")):
        obs.append(ch(f"sami_roundtrip_{nm}", "harness.C11_styles", timeout=T, functions=RT, exhaustive=True,
                      bounds=f"all flat balanced sequences of {nm[1]} nodes written by the SAMI writer and read back by the real SAMIParser + SAMIReader (tree builder html.parser): same flags per character, balanced nodes"))
    obs.append(ch("sami_roundtrip_combo", "harness.C11_styles", timeout=T, functions=RT + ("SAMIWriter._recreate_span", "SAMIReader._translate_style"), exhaustive=True,
                  bounds="one span carrying each of the 7 combinations of italics / bold / underline, with optional text before / after and a break inside: SAMI write then real SAMIParser + SAMIReader"))
    RD = ("DFXPWriter._recreate_text", "DFXPReader.read", "_translate_p_tag", "_convert_tag_to_node", "_convert_span_to_nodes")
    for nm in (("i4",) if q else ("i4", "i6")):
        obs.append(ch(f"dfxp_roundtrip_{nm}", "harness.C11_styles", timeout=T, functions=RD, exhaustive=True,
                      bounds=f"all flat balanced sequences of {nm[1]} nodes written by the DFXP writer and read back by the real DFXPReader (html.parser): same italic flag per character, balanced nodes"))
    obs.append(ch("scc_three_rows", "harness.C11_styles", timeout=T, functions=("SCCReader.read", "scc.specialized_collections._format_italics", "_close_italics_before_repositioning", "_ensure_final_italics_node_closes"), exhaustive=True,
                  bounds="pop-on caption of three rows, each adjacent to or apart from the previous, each with a plain or an italic preamble, single/doubled: balanced style nodes, italic flags equal to the CEA-608 reference decoder's"))
    return obs


ASSUME = [
    "finite structure choices: CrossHair walks every node sequence / tree shape, the solver certifies that no further feasible path exists",
    "reference scanner of span / <i><b><u> markup in harness/C11_styles.py; bs4 emits p.string verbatim (contract); element trees are stubs with the attributes the converters read (name, attrs, contents, layout_info)",
    "round trips: the SAMI reader's tree builder is html.parser instead of lxml (lxml does not run under CrossHair's tracing); SAMIParser itself (pure Python) is the real one",
    "DFXP carries italics only (bold/underline are not written by the DFXP writer, as the statement allows); nested spans are outside the statement",
    "SCC reader: italics normalisation over all short instruction lists is C05's format_italics obligation; here three-row pop-on captions against vlib/ref608.py",
]

if __name__ == "__main__":
    tier = tier_from_argv()
    obs = obligations(tier)
    only = only_from_argv()
    if only:
        obs = [o for o in obs if only in o.name]
    sys.exit(run_check(PID, obs, tier, selftests=[chre.selftest], assumptions=ASSUME,
                       level_text="bounded symbolic execution of span writing/reading over all flat balanced node sequences"))
