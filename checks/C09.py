import sys
sys.path[:0] = ["/verif"]
from vlib.run import ch, run_check, tier_from_argv, only_from_argv
from vlib import chre

PID = "C09"
NAMES = ("srt", "vtt", "mdvd", "scc", "sami", "dfxp", "single", "legacy")
CLS = {"srt": "SRTWriter", "vtt": "WebVTTWriter", "mdvd": "MicroDVDWriter", "scc": "SCCWriter", "sami": "SAMIWriter",
       "dfxp": "DFXPWriter", "single": "SinglePositioningDFXPWriter", "legacy": "LegacyDFXPWriter"}


def obligations(tier):
    q = tier == "quick"
    T = 400 if q else 1800
    obs = []
    for n in NAMES:
        f = (CLS[n] + ".write", "copy.deepcopy", "merge_concurrent_captions", "BaseWriter._relativize_and_fit_to_screen")
        obs.append(ch(f"unchanged_{n}", "harness.C09_writers", timeout=T, functions=f, exhaustive=True,
                      bounds="2 languages, captions with identical timespans, document styles incl. text-align; selectors: video size given or not (RelativizationError path), relativize and fit_to_screen on/off, layouts none / relative with padding at every level / absolute, 2 caption styles, balanced or unclosed italics"))
        obs.append(ch(f"deterministic_{n}", "harness.C09_writers", timeout=T, functions=f, exhaustive=True,
                      bounds="same writer twice, fresh writer, writer that wrote another set (same class name with other rules, unclosed span, 2 languages) before; selectors: caption layout, caption style, no/balanced/unclosed italics, identical timespans"))
        if not q:
            obs.append(ch(f"unchanged_full_{n}", "harness.C09_writers", timeout=T, functions=f, exhaustive=True,
                          bounds="864 selector combinations (video size, layout kinds per level, caption style, two document-style variants, identical timespans, italics, relativize+fit on/off)"))
    obs.append(ch("hashseed_dfxp", "harness.C09_writers", timeout=T, functions=("pycaption.dfxp.base (every set display / comprehension / set() call rewritten to NondetSet)", "DFXPWriter.write", "RegionCreator"),
                  bounds="an arbitrary iteration order (2 solver-chosen picks) against insertion order for every set the DFXP module creates; captions whose nodes carry layouts out of 3 kinds each (styled and plain nodes), 2 languages"))
    return obs


ASSUME = [
    "every input is a finite structure choice; CrossHair's path search walks all of them and the solver certifies completeness",
    "DFXP writers assemble their document on the contract stub of bs4 (harness/fakesoup.py); bs4 and lxml do not run under CrossHair tracing (non-termination, TypeError in typing protocols), the SAMI writer uses the same stub. Counterexamples of the determinism obligations are replayed on the real bs4 through the public API",
    "the name hash inside pycaption.geometry is bound to a deterministic function of the value (CrossHair models hash() as arbitrary); hash consistency itself is C18",
    "another process / hash seed = another iteration order of sets: the DFXP module (the only writer module that creates sets; counted on every run) is re-executed with every set replaced by NondetSet and written twice under two solver-chosen orders (self-composition); modules without any set site cannot depend on set order",
]

if __name__ == "__main__":
    tier = tier_from_argv()
    obs = obligations(tier)
    only = only_from_argv()
    if only:
        obs = [o for o in obs if only in o.name]
    sys.exit(run_check(PID, obs, tier, selftests=[chre.selftest], assumptions=ASSUME,
                       level_text="bounded symbolic execution of all eight writers over structure selectors: input snapshot equality and output determinism"))
