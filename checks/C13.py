import sys
sys.path[:0] = ["/verif"]
from vlib.run import ch, smt, run_check, tier_from_argv, only_from_argv
from vlib import chre

PID = "C13"
E2 = "E2 fplia (ASTs of as_percentage_of / fit_to_screen + inlined constructors -> QF_LIA, z3)"


def obligations(tier):
    q = tier == "quick"
    T = 400 if q else 1200
    obs = []
    for u in ("px", "em", "pt", "c"):
        for k in ((0, 2) if q else (0, 1, 2, 3)):
            obs.append(smt(f"relativize_{u}_k{k}", "smt.C13_fp", "relativize", args=dict(unit=u, k=k), timeout=900, engine=E2))
    obs.append(smt("fit_values_x", "smt.C13_fp", "fit_to_screen", args=dict(axis="x"), timeout=900, engine=E2))
    obs.append(smt("fit_values_y", "smt.C13_fp", "fit_to_screen", args=dict(axis="y"), timeout=900, engine=E2))
    F = ("BaseWriter._relativize_and_fit_to_screen", "Layout.as_percentage_of", "Layout.fit_to_screen")
    for f, b in (("relativize_errors_origin", "origin units x which video dimensions are supplied x fit_to_screen"),
                 ("relativize_errors_extent", "extent unit x origin-y unit x dimensions x fit_to_screen"),
                 ("relativize_errors_padding", "padding unit x origin-x unit x dimensions x fit_to_screen")):
        obs.append(ch(f, "harness.C13_geom", timeout=T, functions=F, exhaustive=True, bounds=b + " (all five units)"))
    obs.append(ch("relativize_axes", "harness.C13_geom", timeout=T, functions=F + ("Point.as_percentage_of", "Stretch.as_percentage_of", "Padding.as_percentage_of"), exhaustive=True,
                  bounds="layout with origin, extent and padding, every unit of x, of y and of extent+padding (5^3) x 2 video sizes: each component equals the percentage of its own axis (width / 32 columns horizontally, height / 15 rows vertically) within 0.01"))
    obs.append(ch("vtt_zero_lengths", "harness.C13_geom", timeout=T, functions=("WebVTTWriter._convert_positioning", "Layout.is_relative", "Size.is_relative"), exhaustive=True,
                  bounds="zero-valued origin / extent lengths in each of the five units, relativize on/off, dimensions given or not: cue settings contain percentages only"))
    obs.append(ch("vtt_no_absolute", "harness.C13_geom", timeout=T, functions=("WebVTTWriter._convert_positioning",), exhaustive=True,
                  bounds="origin/extent/padding units (5 x 5) x presence of extent, padding, width, height x relativize x fit_to_screen"))
    obs.append(ch("fit_printed", "harness.C13_geom", timeout=T, functions=("Layout.fit_to_screen", "Size.__str__"), exhaustive=True,
                  bounds="two-decimal origins {10, 10.01, 35.5, 89.99, 50} and extents {0.01, 54.5, 79.99, 80, 90, 40} or absent: printed sums"))
    obs.append(ch("writer_fit", "harness.C13_geom", timeout=T, functions=F, exhaustive=True,
                  bounds="the same region in each of the five units x extent absent / overflowing x origin at 10% or 50% x two video sizes x relativize on / off (off: percent layouts): fit-to-screen must act on the relativized layout"))
    obs.append(ch("vtt_sequence", "harness.C13_geom", timeout=T, functions=("WebVTTWriter._convert_positioning",), exhaustive=True,
                  bounds="a writer with one video size converts a px layout, then a second writer (other size / same size / no size / width only) converts an equal layout"))
    obs.append(ch("dfxp_levels", "harness.C13_geom", timeout=T, functions=("DFXPWriter.write", "RegionCreator", "_convert_layout_to_attributes"), exhaustive=True,
                  bounds="an absolute layout (5 units) attached at the caption-set, language, caption or node level, fit_to_screen on/off; every written region attribute must be in percent"))
    return obs


ASSUME = [
    "E2: values p/10^k with p < 10^6, k <= 3 parsed by float(); video dimensions from the list 1, 320, 360, 480, 576, 640, 720, 1080, 1280, 1920, 3840, 997 (division by a symbolic dimension is non-linear); tolerance 2^-30 absolute + 2^-48 relative for three double roundings; the two-decimal printing of a value within that tolerance is within 0.005 of the exact percentage",
    "fit_to_screen values: every double origin in the safe area, every double extent in [2^-7, 128) or absent; slack of one rounding (2^-40)",
    "cell units need a video dimension only to tell the axis; a missing dimension raises (accepted by the statement: refusing instead of guessing)",
    "fit-to-screen of the language-level (div) region is pinned by tests/test_dfxp_conversion.py::test_empty_cue (written without extent) and therefore outside the checked domain; its relativization is checked",
    "E1: magnitudes are finite choices (no symbolic floats under CrossHair); writers' bs4 serialisation of the attribute strings is a contract",
]

if __name__ == "__main__":
    tier = tier_from_argv()
    obs = obligations(tier)
    only = only_from_argv()
    if only:
        obs = [o for o in obs if only in o.name]
    sys.exit(run_check(PID, obs, tier, selftests=[chre.selftest], assumptions=ASSUME,
                       level_text="exact-LIA checking of the relativization and fit-to-screen arithmetic over all listed values, plus bounded symbolic execution of the error paths"))
