import sys
sys.path[:0] = ["/verif"]
from vlib.run import ch, run_check, tier_from_argv, only_from_argv
from vlib import chre

PID = "C12"


def obligations(tier):
    q = tier == "quick"
    T = 600 if q else 2400
    R = ("DFXPWriter.write", "RegionCreator._collect_unique_regions/_create_unique_regions/get_positioning_info", "_convert_layout_to_attributes",
         "DFXPReader.read", "LayoutAwareDFXPParser._pre_order_visit/_determine_region_id", "LayoutInfoScraper.scrape_positioning_info/_find_attribute")
    obs = []
    for i, n in enumerate(("none", "layout A", "alignment only (= DFXP default region)")):
        obs.append(ch(f"dfxp_roundtrip_l{i}", "harness.C12_pos", timeout=T, functions=R, exhaustive=True,
                      bounds=f"language layout: {n}; caption layout none / equal-valued copy of A / B (padding + alignment); two positioned spans per caption with layouts none/A/B and none/alignment-only/copy of A; write (stub soup, verbatim) then real DFXPReader.read"))
    obs.append(ch("dfxp_roundtrip_same_box", "harness.C12_pos", timeout=T, functions=R, exhaustive=True,
                  bounds="one box with the alignment absent / spelled out as the DFXP default / right-top, at caption level and on two positioned spans (27 combinations): unequal layouts that serialise to the same region attributes"))
    V = ("WebVTTWriter._convert_positioning", "_group_cues_by_layout", "_convert_caption", "write")
    obs.append(ch("vtt_settings", "harness.C12_pos", timeout=T, functions=V, exhaustive=True,
                  bounds="origin x/y out of {0, 10, 12.5, 33.33}, width absent/50/66.67, start/end/top padding absent/0.75/5, alignment absent/left/center/right: cue settings equal the reference arithmetic printed with two decimals"))
    obs.append(ch("vtt_settings_fit", "harness.C12_pos", timeout=T, functions=V + ("Layout.fit_to_screen",), exhaustive=True,
                  bounds="fit_to_screen=True x relativize on/off, origin x out of {0, 10, 12.5, 33.33}, width absent/50/66.67, start padding absent/0.75/5"))
    obs.append(ch("vtt_shared_layout", "harness.C12_pos", timeout=T, functions=V + ("geometry.Size.__add__/__sub__", "Layout.as_percentage_of/fit_to_screen"), exhaustive=True,
                  bounds="2-3 cues resolving to one Layout object (language level / same instance on each caption / on each node) with start and top padding absent/0.75/5: every cue carries that layout's settings, the layout object is unchanged"))
    obs.append(ch("vtt_split_and_passthrough", "harness.C12_pos", timeout=T, functions=V, exhaustive=True,
                  bounds="three text nodes with layouts out of {none, A, B}: cues per run of equal layouts, same times, settings of each run"))
    obs.append(ch("vtt_read_settings_verbatim", "harness.C12_pos", timeout=T, functions=("WebVTTReader._parse_timing_line", "WebVTTWriter._convert_positioning"), exhaustive=True,
                  bounds="4 cue-setting strings read from a WebVTT file and written back"))
    return obs


ASSUME = [
    "finite layout pools (CrossHair cannot carry symbolic floats): two relative layouts, an equal-valued copy, an alignment-only layout equal to the DFXP default region; the relativization/fit arithmetic over all values is C13",
    "writer side on the recording stub of bs4 serialised verbatim; reader side is the real DFXPReader on Python's html.parser; writer options relativize=False, fit_to_screen=False (percent layouts pass unchanged)",
    "node-level layouts are carried by positioned spans (style nodes + the text they enclose), as DFXP-read caption sets have them; set-level layouts are not part of the statement",
]

if __name__ == "__main__":
    tier = tier_from_argv()
    obs = obligations(tier)
    only = only_from_argv()
    if only:
        obs = [o for o in obs if only in o.name]
    sys.exit(run_check(PID, obs, tier, selftests=[chre.selftest], assumptions=ASSUME,
                       level_text="bounded symbolic execution of the DFXP write/read round trip of layouts and of the WebVTT cue-setting mapping"))
