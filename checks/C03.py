import sys
sys.path[:0] = ["/verif"]
from vlib.run import ch, run_check, tier_from_argv, only_from_argv
from vlib import chfmt, chre

PID = "C03"


def obligations(tier):
    q = tier == "quick"
    T = 300 if q else 900
    obs = []
    enc = {
        "vtt": ("WebVTTWriter._group_cues_by_layout", "_encode_illegal_characters"),
        "dfxp": ("DFXPWriter._recreate_text", "_encode", "xml.sax.saxutils.escape"),
        "legacy_dfxp": ("LegacyDFXPWriter._recreate_text", "xml.sax.saxutils.escape"),
        "sami": ("SAMIWriter._recreate_text", "_encode"),
        "srt": ("SRTWriter.write", "_recreate_lang", "_recreate_line"),
        "mdvd": ("MicroDVDWriter.write", "_recreate_lang", "_recreate_line"),
    }
    for k, fns in enc.items():
        obs.append(ch(f"{k}_text", "harness.C03_text", timeout=T, functions=fns,
                      bounds="one line, 1-3 arbitrary printable code points (U+0020-7E, U+00A0-2FF), at least one visible"))
        if k not in ("srt", "mdvd"):
            obs.append(ch(f"{k}_amp4", "harness.C03_text", timeout=T, functions=fns,
                          bounds="one line '&' + 3 arbitrary printable code points (entity-looking text such as &lt; &#3 &am)"))
    n = 5 if q else 7
    st = {"srt": enc["srt"], "vtt": ("WebVTTWriter.write", "_convert_caption", "_group_cues_by_layout"), "mdvd": enc["mdvd"],
          "dfxp": enc["dfxp"], "sami": enc["sami"]}
    for k, fns in st.items():
        obs.append(ch(f"{k}_struct{n}", "harness.C03_struct", timeout=T, functions=fns, exhaustive=True,
                      bounds=f"all sequences of {n} nodes over TEXT / EMPTY TEXT / BREAK with one text node per line and visible text; placeholder texts; followed by a second caption"))
    obs.append(ch("legacy_struct5", "harness.C03_struct", timeout=T, functions=enc["legacy_dfxp"], exhaustive=True,
                  bounds="all sequences of 5 nodes over TEXT / EMPTY TEXT / BREAK"))
    obs.append(ch("srt_struct4", "harness.C03_struct", timeout=T, functions=enc["srt"], exhaustive=True,
                  bounds="all sequences of 4 nodes"))
    return obs


ASSUME = [
    "CrossHair 0.0.110 + z3; CrossHair's model of str.replace/strip/split/startswith",
    "reference decoders in harness/ref_text.py (XML character data, WebVTT cue text) and the block parsers in harness/C03_struct.py are written from the format specifications",
    "bs4 emits p.string verbatim (prettify(formatter=None)); prettify re-indentation adds whitespace only (contract)",
    "text bounded to 3 free code points (+ a fixed '&' prefix variant); lines made of several adjacent text nodes are outside the statement's domain; MicroDVD '|' excluded",
    "SRT reference parser treats whitespace-only lines as blank (as pycaption's own reader and common players do)",
]

if __name__ == "__main__":
    tier = tier_from_argv()
    obs = obligations(tier)
    only = only_from_argv()
    if only:
        obs = [o for o in obs if only in o.name]
    sys.exit(run_check(PID, obs, tier, selftests=[chfmt.selftest, chre.selftest], assumptions=ASSUME,
                       level_text="bounded symbolic checking of the real writer text paths with independent reference decoders"))
