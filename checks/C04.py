import sys
sys.path[:0] = ["/verif"]
from vlib.run import ch, run_check, tier_from_argv, only_from_argv
from vlib import chfmt, chre

PID = "C04"


def obligations(tier):
    q = tier == "quick"
    T = 300 if q else 900
    obs = []
    V = ("WebVTTReader.read", "_parse", "_decode", "VOICE_SPAN_PATTERN", "OTHER_SPAN_PATTERN")
    obs.append(ch("vtt_read_text3", "harness.C04_vtt", timeout=T, functions=V, bounds="cue text line of 1-3 arbitrary printable code points"))
    obs.append(ch("vtt_read_amp", "harness.C04_vtt", timeout=T, functions=V, bounds="'a&' + 3 arbitrary code points + ';b' (every 3-letter reference name, e.g. &amp; is 'amp')"))
    obs.append(ch("vtt_read_tag2", "harness.C04_vtt", timeout=T, functions=V, bounds="'x<' ['/'] + 1-2 arbitrary code points + '>y' (all 1-2 character tag names, known and unknown)"))
    obs.append(ch("vtt_read_tag_ann", "harness.C04_vtt", timeout=T, functions=V, bounds="'x<' + 1-2 code points + ' Ann>y</v>' (tag with annotation: voice vs others)"))
    obs.append(ch("vtt_read_voice_classes", "harness.C04_vtt", timeout=T, functions=V, bounds="voice tag with 0-3 classes (first class = any word character + 'z') and an annotation"))
    obs.append(ch("vtt_read_timestamp_tag", "harness.C04_vtt", timeout=T, functions=V, exhaustive=True, bounds="cue timestamp tags <mm:ss.ttt>, <hh:mm:ss.ttt>, <hhh:mm:ss.ttt> (3 digit patterns each), once or twice in a line"))
    obs.append(ch("srt_read_text", "harness.C04_plain", timeout=T, functions=("SRTReader.read",), bounds="two text lines of 1-3 and 1-2 arbitrary printable code points"))
    obs.append(ch("mdvd_read_text", "harness.C04_plain", timeout=T, functions=("MicroDVDReader.read",), bounds="two '|'-separated lines of 1-3 and 1-2 code points"))
    L = ("DFXPReader._convert_tag_to_node", "SAMIReader._translate_tag")
    obs.append(ch("dfxp_leaf3", "harness.C04_leaf", timeout=T, functions=L[:1], bounds="text leaf of 1-3 code points incl. newline"))
    obs.append(ch("sami_leaf3", "harness.C04_leaf", timeout=T, functions=L[1:], bounds="text leaf of 1-3 code points incl. newline"))
    if q:
        obs.append(ch("dfxp_leaf_wrapped_q", "harness.C04_leaf", timeout=T, functions=L[:1], bounds="leaf '\\n<ind>a\\n<ind>b\\n<ind>' with 1+1 arbitrary code points, indentation 0 or 2"))
        obs.append(ch("sami_leaf_wrapped_q", "harness.C04_leaf", timeout=T, functions=L[1:], bounds="leaf '\\n<ind>a\\n<ind>b\\n<ind>' with 1+1 arbitrary code points, indentation 0 or 2"))
    else:
        obs.append(ch("dfxp_leaf_wrapped", "harness.C04_leaf", timeout=T, functions=L[:1], bounds="wrapped leaf, 1-2 + 1-2 code points, indentation 0-2"))
        obs.append(ch("sami_leaf_wrapped", "harness.C04_leaf", timeout=T, functions=L[1:], bounds="wrapped leaf, 1-2 + 1-2 code points, indentation 0-2"))
    S = ("SAMIParser.handle_entityref", "handle_charref", "handle_data")
    obs.append(ch("wrap_next_to_inline", "harness.C04_leaf", timeout=T, functions=("DFXPReader._convert_tag_to_node", "SAMIReader._translate_tag"), known="C04-wrap-next-to-inline",
                  bounds="'<i>a</i>' + newline + indentation + 'b c' and the mirrored order, DFXP and SAMI, through the real readers"))
    obs.append(ch("sami_entityref", "harness.C04_sami", timeout=T, functions=S, bounds="11 named references (amp lt gt quot apos nbsp copy eacute Eacute Omega Prime) x following data of 0-3 arbitrary code points"))
    obs.append(ch("sami_charref_dec", "harness.C04_sami", timeout=T, functions=S, bounds="all decimal references 32..999 x following data of 0-3 code points"))
    obs.append(ch("sami_charref_hex", "harness.C04_sami", timeout=T, functions=S, bounds="6 hex references (& < > A e-acute \") x following data of 0-3 code points"))
    return obs


ASSUME = [
    "CrossHair 0.0.110 + z3; regex matcher repaired by vlib/chre.py (self-tested against CPython re)",
    "reference display text (WebVTT) and HTML/XML decoders are written from the statement and the specs",
    "html.parser / lxml tokenisation and reference decoding are contracts (stage 2 decodes each reference exactly once; leaves hold decoded text); the module's NavigableString name is rebound to the symbolic string type during the call",
    "WebVTT domain: every '<' closed by '>', no empty class names, no '-->' in text; text bounded to 3 free code points per obligation shape",
]

if __name__ == "__main__":
    tier = tier_from_argv()
    obs = obligations(tier)
    only = only_from_argv()
    if only:
        obs = [o for o in obs if only in o.name]
    sys.exit(run_check(PID, obs, tier, selftests=[chfmt.selftest, chre.selftest], assumptions=ASSUME,
                       level_text="bounded symbolic checking of the real reader text paths against reference display text"))
