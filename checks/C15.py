import sys
sys.path[:0] = ["/verif"]
from vlib.run import ch, run_check, tier_from_argv, only_from_argv
from vlib import chfmt, chre

PID = "C15"
F = ("pycaption.scc.SCCReader.read (line-length scan)", "CaptionCreator.get_all", "PreCaption.to_real_caption")


def obligations(tier):
    q = tier == "quick"
    T = 300 if q else 1200
    obs = [
        ch("scan2", "harness.C15_scc", timeout=T, functions=F, exhaustive=True,
           bounds="2 captions x start shared or not x line length in {1,31,32,33,40}; both orders arise from the start flags"),
        ch("scan3", "harness.C15_scc", timeout=T, functions=F, exhaustive=True,
           bounds="3 captions x start shared or not x line length in {1,31,32,33,40} (1000 structures)"),
        ch("scan2_two_lines_q", "harness.C15_scc", timeout=T, functions=F, exhaustive=True,
           bounds="2 captions of two lines each, lengths in {32,33}, start shared or not"),
        ch("decode_row", "harness.C15_scc", timeout=T, functions=("SCCReader.read", "_translate_line", "_translate_word", "InstructionNodeCreator.add_chars"),
           exhaustive=True, bounds="one row of 28..38 characters decoded by the real reader in pop-on, roll-up and paint-on mode"),
    ]
    obs.append(ch("scan2_split", "harness.C15_scc", timeout=T, functions=F, exhaustive=True,
                  bounds="2 captions x shared start or not x length in {31,32,33,40} x the line is one text node or two text nodes around an italics span"))
    obs.append(ch("decode_row_midrow", "harness.C15_scc", timeout=T, functions=("SCCReader.read", "InstructionNodeCreator.interpret_command", "_format_italics"), exhaustive=True,
                  bounds="one row of 12-18 + 12-18 characters with a mid-row italics code in between, decoded in all three modes"))
    obs.append(ch("decode_row_leading_space", "harness.C15_scc", timeout=T, functions=("SCCReader.read", "length check over the returned captions"), exhaustive=True,
                  bounds="a row of 30-35 characters beginning with one or two spaces, pop-on / roll-up / paint-on: refused iff longer than 32 cells"))
    obs.append(ch("decode_row_pending", "harness.C15_scc", timeout=T, functions=("SCCReader.read", "_flush_implicit_buffers", "_pop_on", "_roll_up"), exhaustive=True,
                  bounds="a row of 30-36 characters that is still pending when the input ends (pop-on without erase, roll-up without carriage return, paint-on), all three modes"))
    if not q:
        obs.append(ch("scan4", "harness.C15_scc", timeout=T, functions=F, exhaustive=True, bounds="4 captions, lengths in {31,32,33}, start shared or not"))
        obs.append(ch("scan2_two_lines", "harness.C15_scc", timeout=T, functions=F, exhaustive=True, bounds="2 captions of two lines, lengths in {1,31,32,33,40}"))
    return obs


ASSUME = [
    "CrossHair 0.0.110 + z3; the symbolic inputs are finite choices (shared start flags, length classes around the limit), so the path search is an exhaustive walk certified complete by the solver",
    "the stash is filled directly with PreCaptions (what decoding stores); decode_row goes through the real decoder",
    "line lengths matter to the scan only through the comparison with 32; classes {1,31,32,33,40} stand for 'short, just below, at, just above, far above'",
]

if __name__ == "__main__":
    tier = tier_from_argv()
    obs = obligations(tier)
    only = only_from_argv()
    if only:
        obs = [o for o in obs if only in o.name]
    sys.exit(run_check(PID, obs, tier, selftests=[chfmt.selftest, chre.selftest], assumptions=ASSUME,
                       level_text="bounded symbolic checking of the SCC line-length scan on injected state plus real decoding of one row"))
