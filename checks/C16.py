import sys
sys.path[:0] = ["/verif"]
from vlib.run import ch, run_check, tier_from_argv, only_from_argv
from vlib import chre

PID = "C16"
F = ("SCCReader.read", "_translate_command (RU2/RU3/RU4/RDC/CR)", "_roll_up", "_flush_implicit_buffers", "NotifyingDict.set_active",
     "CaptionCreator.create_and_store/correct_last_timing", "TimingCorrectingCaptionList.extend")


def obligations(tier):
    q = tier == "quick"
    T = 500 if q else 2400
    obs = [
        ch("rollup", "harness.C16_rollup", timeout=T, functions=F, exhaustive=True,
           bounds="roll-up depth 2/3/4 x 1-3 rows x short or long rows x base row 14/15 x single/doubled codes x drop/non-drop x carriage return before or after the row"),
        ch("painton", "harness.C16_rollup", timeout=T, functions=F, exhaustive=True, bounds="paint-on, 1-3 rows on adjacent or separate screen rows, short/long, single/doubled, drop/non-drop"),
        ch("mode_switch", "harness.C16_rollup", timeout=T, functions=F, exhaustive=True, bounds="one row in one of the four modes followed by a row in another mode (12 ordered pairs), single/doubled"),
        ch("painton_multi_position", "harness.C16_rollup", timeout=T, functions=F + ("fix_last_captions_without_ending",), exhaustive=True,
           bounds="a final paint-on block painting 1-3 separate screen positions, optionally preceded by another block, single/doubled, drop/non-drop: every part has start < end and the parts end together"),
        ch("stamps_and_full_rows", "harness.C16_rollup", timeout=T, functions=F, exhaustive=True,
           bounds="three rows in each of the four modes; line stamps from 00:00:00:00, or with the last line's transmission crossing the minute (second 59, frame 20), or crossing the hour; rows of a few or of all 32 columns; single/doubled; drop/non-drop"),
    ]
    if not q:
        obs.append(ch("rollup5", "harness.C16_rollup", timeout=T, functions=F, exhaustive=True, bounds="4-5 rows"))
    return obs


ASSUME = [
    "finite stream shapes with concrete timecodes (one row per line, 2 s apart); the timecode arithmetic is C06's E2 obligation",
    "oracle = the statement: conservation and order of the displayable characters, rows kept together, captions ordered, start < end, end == next start; screen layout of rolled rows and simulate_roll_up=True are outside",
]

if __name__ == "__main__":
    tier = tier_from_argv()
    obs = obligations(tier)
    only = only_from_argv()
    if only:
        obs = [o for o in obs if only in o.name]
    sys.exit(run_check(PID, obs, tier, selftests=[chre.selftest], assumptions=ASSUME,
                       level_text="bounded symbolic execution of the SCC reader over roll-up / paint-on stream shapes"))
