import sys
sys.path[:0] = ["/verif"]
from vlib.run import ch, smt, run_check, tier_from_argv, only_from_argv
from vlib import chre

PID = "C06"
E2 = "E2 fplia (AST of _translate_time -> QF_LIA, z3)"
F = ("SCCReader.read", "_translate_word (frame counting)", "_translate_command (EOC / EDM)", "_pop_on", "_SccTimeTranslator.get_time/_translate_time",
     "TimingCorrectingCaptionList._update_last_batch", "fix_last_captions_without_ending", "flash-cue rejection")


def obligations(tier):
    q = tier == "quick"
    T = 600 if q else 2400
    obs = []
    for drop in (False, True):
        nm = "df" if drop else "ndf"
        obs.append(smt(f"translate_time_{nm}", "smt.C06_fp", "translate_time", args=dict(drop=drop, with_offset=False, fmax=300), timeout=900, engine=E2))
        for off in ((1, 3600) if q else (1, 10, 59, 3600, 86400)):
            obs.append(smt(f"translate_time_{nm}_off{off}", "smt.C06_fp", "translate_time",
                           args=dict(drop=drop, with_offset=True, fmax=120, offmin=off, offmax=off), timeout=900, engine=E2))
        if not q:
            obs.append(smt(f"translate_time_{nm}_offsym", "smt.C06_fp", "translate_time",
                           args=dict(drop=drop, with_offset=True, fmax=60, offmin=0, offmax=600), timeout=3000, engine=E2))
    obs.append(ch("timing1", "harness.C06_timing", timeout=T, functions=F, exhaustive=True,
                  bounds="one caption: 1-3 character words before its EOC, never cleared or erased on its own line 3/40/100 frames later, single/doubled codes, drop/non-drop, offset 0/1/2 s"))
    obs.append(ch("timing2", "harness.C06_timing", timeout=T, functions=F, exhaustive=True,
                  bounds="two captions: word counts, first one ended by the next EOC / an inline EDM / an EDM line after 3, 40 or 100 frames (five-frame rule), single/doubled, drop/non-drop"))
    obs.append(ch("timing3", "harness.C06_timing", timeout=T, functions=F, exhaustive=True,
                  bounds="three captions with every combination of clearing modes, gaps, doubling, timecode kind, offset 0/1 s"))
    obs.append(ch("multi_position", "harness.C06_timing", timeout=T, functions=F, exhaustive=True,
                  bounds="a caption with text at 1-3 separate screen positions (returned as that many Caption objects), last and never cleared / erased / replaced, preceded by a caption of 1 or as many parts; single/doubled; drop/non-drop: every part carries the caption's start and end"))
    obs.append(ch("close_lines", "harness.C06_timing", timeout=T, functions=F, exhaustive=True, bounds="two caption lines 12-15 frames apart"))
    obs.append(ch("bare_eoc", "harness.C06_timing", timeout=T, functions=F, exhaustive=True,
                  bounds="a lone EOC 1-3 frames after a caption appeared: 1 frame (33 ms) must raise the timing error, 2-3 frames are returned"))
    return obs


ASSUME = [
    "E2: every timecode HH <= 99, MM, SS <= 59, frame field (line timecode + words sent) <= 300 (120 with an offset), offsets 1 s and 3600 s (more and symbolic 0..600 s in thorough); result within 2^-10 us of the exact rational (3600H+60M+S+F/30) * r * 10^6 - offset floored at 0; the regex shape check of the stamp is stubbed (the E1 obligations run the real one)",
    "E1: timecodes and gaps are concrete on every path (CrossHair cannot carry symbolic floats); the symbolic inputs are the stream shape selectors",
    "pop-on streams of the usual shape ENM RCL PAC text [EDM] EOC; negative offsets and roll-up/paint-on timing (C16) are outside",
]

if __name__ == "__main__":
    tier = tier_from_argv()
    obs = obligations(tier)
    only = only_from_argv()
    if only:
        obs = [o for o in obs if only in o.name]
    sys.exit(run_check(PID, obs, tier, selftests=[chre.selftest], assumptions=ASSUME,
                       level_text="exact-LIA checking of the timecode arithmetic over all field values plus bounded symbolic execution of the pop-on schedule against an exact-rational reference"))
