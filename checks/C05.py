import sys
sys.path[:0] = ["/verif"]
from vlib.run import ch, run_check, tier_from_argv, only_from_argv
from vlib import chre

PID = "C05"
F = ("SCCReader.read", "_translate_line", "_translate_word", "_handle_double_command", "_translate_command", "_translate_characters",
     "_translate_special_char", "_translate_extended_char", "InstructionNodeCreator.add_chars/interpret_command/handle_backspace",
     "_PositioningTracker", "_format_italics", "CaptionCreator.create_and_store", "_get_layout_from_tuple", "scc/constants.py tables")


def obligations(tier):
    q = tier == "quick"
    T = 500 if q else 2400
    obs = []
    for k, first in enumerate(("0x11", "0x12", "0x15", "0x16", "0x17", "0x10", "0x13", "0x14")):
        obs.append(ch(f"pac_sweep_{k}", "harness.C05_scc", timeout=T, functions=F, exhaustive=True,
                      bounds=f"every preamble address code with first byte {first} (all second bytes 0x40-0x7F: rows, indents, colours, italics, underline) followed by two characters"))
    for nm in ("single", "doubled"):
        obs.append(ch(f"pac_tab_{nm}", "harness.C05_scc", timeout=T, functions=F, exhaustive=True,
                      bounds=f"15 rows x indent 0-28 or italics x tab offset none/1/2/3, control codes {nm} (preamble + tab offset doubled as a unit), text staying within the row"))
    obs.append(ch("chars_basic", "harness.C05_scc", timeout=T, functions=F, exhaustive=True, bounds="every basic character code 0x20-0x7E in first and second byte position"))
    obs.append(ch("chars_special", "harness.C05_scc", timeout=T, functions=F, exhaustive=True, bounds="all 16 special characters, single and doubled"))
    obs.append(ch("chars_extended", "harness.C05_scc", timeout=T, functions=F, exhaustive=True, bounds="all 64 extended characters after a stand-in character, single and doubled"))
    obs.append(ch("two_rows_rows", "harness.C05_scc", timeout=T, functions=F, exhaustive=True,
                  bounds="two rows: first row 1-12, second 1-3 rows below (adjacent = one caption, else two), each plain or italic, single or doubled codes"))
    obs.append(ch("two_rows_indents", "harness.C05_scc", timeout=T, functions=F, exhaustive=True,
                  bounds="two rows with indents 0-24 each, first row plain or italic, adjacent or not, odd or even row pair"))
    obs.append(ch("two_rows_tabs", "harness.C05_scc", timeout=T, functions=F, exhaustive=True,
                  bounds="two rows, each preamble (indent 0/4/8 or italic) optionally followed by tab offset 1-2, adjacent or not, single or doubled (preamble + tab offset doubled as a unit)"))
    obs.append(ch("three_rows", "harness.C05_scc", timeout=T, functions=F, exhaustive=True,
                  bounds="three rows, each adjacent to or one row apart from the previous, each with a plain or an italic preamble, single or doubled"))
    obs.append(ch("two_captions", "harness.C05_scc", timeout=T, functions=F + ("NodeCreatorFactory.new_creator", "_PositioningTracker.reset/update_positioning"), exhaustive=True,
                  bounds="two consecutive pop-on captions, each one of 8 row arrangements (1-2 rows; the second caption above, on, or directly below the first one's rows), with or without ENM, single/doubled: each caption at its own first row"))
    obs.append(ch("midrow_italics", "harness.C05_scc", timeout=T, functions=F, exhaustive=True,
                  bounds="three words on one row with mid-row italics switched on before word 0-2 and off after word 0-2, every row, single or doubled"))
    obs.append(ch("backspace", "harness.C05_scc", timeout=T, functions=F, exhaustive=True, bounds="1-3 character pairs, 0-2 backspaces each followed by characters, single or doubled"))
    obs.append(ch("format_italics4" if q else "format_italics5", "harness.C05_scc", timeout=T, functions=("scc.specialized_collections._format_italics (all passes)",), exhaustive=True,
                  bounds=f"every list of {4 if q else 5} instruction nodes over text / break / italics on / italics off / repositioning"))
    obs.append(ch("chars_solid_block", "harness.C05_scc", timeout=T, functions=F, known="C05-solid-block-dropped", bounds="basic code 0x7F in both byte positions"))
    if not q:
        obs.append(ch("two_rows", "harness.C05_scc", timeout=T, functions=F, exhaustive=True, bounds="3528 two-row programs (first row 1/6/12 x gaps 1-3 x indents 0-24 each x italics x doubling)"))
    return obs


ASSUME = [
    "oracle: vlib/ref608.py, a pop-on decoder written from the CEA-608 code tables (calibrated once against pycaption's tables: they agree on all 487 PAC entries of valid parity, all basic/special/extended characters except 0x7F and the typographic apostrophe of extended 0x12 0x29, which is compared modulo ' vs ’)",
    "well-formed streams: odd parity, one doubling mode per stream, a preamble before the first character of a row, extended characters after a stand-in, identical control codes never adjacent in single mode (two backspaces are separated by characters), text stays within the 32 columns of its row (overflow is C15's subject)",
    "every symbolic input is an index into a table of the standard or a small structure choice; the solver certifies that the path search walked all of them",
    "mid-row spacing: text is compared exactly on non-space characters and modulo runs of spaces",
]

if __name__ == "__main__":
    tier = tier_from_argv()
    obs = obligations(tier)
    only = only_from_argv()
    if only:
        obs = [o for o in obs if only in o.name]
    sys.exit(run_check(PID, obs, tier, selftests=[chre.selftest], assumptions=ASSUME,
                       level_text="bounded symbolic execution of the real SCC reader over the code tables of the standard and short pop-on programs, against an independent CEA-608 reference decoder"))
