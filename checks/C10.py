import sys
sys.path[:0] = ["/verif"]
from vlib.run import ch, run_check, tier_from_argv, only_from_argv
from vlib import chre

PID = "C10"


def obligations(tier):
    q = tier == "quick"
    T = 400 if q else 1500
    R = ("SRTReader.read", "WebVTTReader.read", "MicroDVDReader.read", "SCCReader.read", "CaptionSet.__init__", "Caption.__init__",
         "CaptionSet.add_style", "set_captions")
    obs = [
        ch("isolation", "harness.C10_readers", timeout=T, functions=R, exhaustive=True,
           bounds="two results from any two of the SRT/WebVTT/MicroDVD/SCC readers (16 pairs) x 5 edit operations on the first (add_style, caption style, set_captions, node/time edit, append) x 2 documents; the second result and a later read must be unaffected"),
        ch("reuse_pure", "harness.C10_readers", timeout=T, functions=R[:4], exhaustive=True,
           bounds="a reader object used for one document then another (both orders) vs. a fresh object, 4 readers incl. SCC (also a document whose first caption has no preamble code)"),
        ch("plain_results_disjoint", "harness.C10_readers", timeout=T, functions=R, exhaustive=True,
           bounds="SRT / WebVTT / MicroDVD / SCC, two reads of one document by the same or by two reader objects: the results share no mutable object (layouts, nodes, styles, lists)"),
        ch("sami_lang_order", "harness.C10_readers", timeout=T, functions=("SAMIParser.__init__", "handle_starttag", "_find_lang", "SAMIReader.read (language loop)"),
           bounds="3 languages in every document order, with every iteration order of any set the parser creates (NondetSet: order chosen by the solver)"),
        ch("sami_dfxp_reuse", "harness.C10_readers", timeout=T, functions=("SAMIReader._translate_lang",),
           bounds="used vs fresh SAMIReader on 2 syncs with symbolic instants and 5 shapes each"),
    ]
    obs.append(ch("sami_lang_layout_order", "harness.C10_readers", timeout=T, functions=("pycaption.sami (every set rewritten to NondetSet)", "SAMIReader.read (per-language layout selection)"),
                  bounds="two stylesheet classes declaring the same language with different alignments, in both document orders; an arbitrary set iteration order against insertion order"))
    obs.append(ch("markup_results_disjoint", "harness.C10_readers", timeout=T, functions=("DFXPReader.read", "SAMIReader.read", "LayoutAwareDFXPParser", "LayoutInfoScraper"), exhaustive=True,
                  bounds="every pair out of 4 caption sets read from DFXP and SAMI documents (with and without explicit positioning): no mutable object (layout, alignment, size, dict, list, node) is reachable from both"))
    return obs


ASSUME = [
    "CrossHair 0.0.110 + z3; hash-seed dependence is modelled as an arbitrary iteration order of every set the code under test creates (module-level name set rebound to NondetSet during construction)",
    "SAMI tokenizer/cssutils/bs4 are behind the reader's factory hooks (contract stubs); counterexamples of the language-order obligation are replayed on real documents under 12 values of PYTHONHASHSEED",
    "finite document pool for the isolation/reuse obligations (structure, not text, is the subject)",
]

if __name__ == "__main__":
    tier = tier_from_argv()
    obs = obligations(tier)
    only = only_from_argv()
    if only:
        obs = [o for o in obs if only in o.name]
    sys.exit(run_check(PID, obs, tier, selftests=[chre.selftest], assumptions=ASSUME,
                       level_text="bounded symbolic execution of reader isolation, reuse and set-order independence"))
