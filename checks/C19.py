import sys
sys.path[:0] = ["/verif"]
from vlib.run import ch, run_check, tier_from_argv, only_from_argv
from vlib import chfmt, chre

PID = "C19"
M = ("pycaption.base.merge_concurrent_captions", "pycaption.base.merge")
A = ("pycaption.base.CaptionSet.adjust_caption_timing",)


def obligations(tier):
    q = tier == "quick"
    T = 200 if q else 900
    obs = [
        ch("merge3", "harness.C19_base", timeout=T, functions=M, bounds="3 captions, unconstrained integer (start, end); merge twice (idempotence)"),
        ch("merge4", "harness.C19_base", timeout=T, functions=M, bounds="4 captions, unconstrained integer (start, end); merge twice"),
        ch("merge_two_langs", "harness.C19_base", timeout=T, functions=M, bounds="2 languages with 2 and 3 captions, unconstrained instants"),
        ch("merge_one", "harness.C19_base", timeout=T, functions=M[1:], bounds="merge() of two captions, unconstrained instants"),
        ch("adjust_int", "harness.C19_base", timeout=T, functions=A, bounds="2 languages (3 + 2 captions), non-negative instants, integer skew 1..4, any integer offset"),
        ch("adjust_default_skew", "harness.C19_base", timeout=T, functions=A, bounds="3 captions, skew 1, any integer offset"),
    ]
    obs.append(ch("merge_shapes", "harness.C19_base", timeout=T, functions=M,
                  bounds="3 captions with unconstrained instants whose node lists are [text], [text, break], [break, text] or [text, break, text] (64 shape combinations)"))
    if not q:
        obs.append(ch("merge6", "harness.C19_base", timeout=T, functions=M, bounds="6 captions, unconstrained integer (start, end)"))
    return obs


ASSUME = [
    "CrossHair 0.0.110 + z3; instants are unbounded mathematical integers, only their equalities/signs matter",
    "rate skews are integers 1..4 (a rational skew p/q is the integer skew p on times pre-scaled by q); float skews are outside the claim (CrossHair realises floats)",
]

if __name__ == "__main__":
    tier = tier_from_argv()
    obs = obligations(tier)
    only = only_from_argv()
    if only:
        obs = [o for o in obs if only in o.name]
    sys.exit(run_check(PID, obs, tier, selftests=[chfmt.selftest], assumptions=ASSUME,
                       level_text="bounded symbolic checking of merging and retiming over unconstrained integer instants"))
