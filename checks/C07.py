import sys
sys.path[:0] = ["/verif"]
from vlib.run import ch, run_check, tier_from_argv, only_from_argv
from vlib import chre

PID = "C07"


def obligations(tier):
    q = tier == "quick"
    T = 500 if q else 2400
    W = ("DFXPWriter._recreate_text", "_recreate_span", "dfxp.base._recreate_style", "_escape_attribute_values", "LegacyDFXPWriter._recreate_span", "_recreate_style")
    obs = [
        ch("span_attr_value", "harness.C07_dfxp", timeout=T, functions=W,
           bounds="a style node whose font-family / color / font-size / text-align value is any string of 1-2 characters over {\" ' & < > a ; space}, DFXP and legacy writer: the hand-assembled <span> must be well-formed and carry the value"),
        ch("bs4_attr_value", "harness.C07_dfxp", timeout=T, functions=("DFXPWriter._recreate_styling_tag", "_recreate_p_tag", "LegacyDFXPWriter._recreate_styling_tag"),
           bounds="the same values in a document style (DFXP, legacy) and in a caption style: what is handed to the serialiser must be well-formed attribute content"),
        ch("integrity_dfxp", "harness.C07_dfxp", timeout=T, functions=("DFXPWriter.write", "RegionCreator.create_document_regions", "get_positioning_info", "cleanup_regions", "_assign_positioning_data"),
           exhaustive=True, bounds="layouts at set / language / caption / node level (none, two relative layouts, an equal-valued copy, alignment-only = default region), positioned spans, 1-2 languages: ids unique, references resolve, every region referenced, one div per language, one p per caption"),
        ch("integrity_options", "harness.C07_dfxp", timeout=T, functions=("DFXPWriter.write(force=)", "SinglePositioningDFXPWriter.write", "LegacyDFXPWriter.write", "merge_concurrent_captions"),
           exhaustive=True, bounds="3 writers x 1-2 languages x identical timespans (merged run = one p) x force= x caption layout"),
    ]
    TX = ("DFXPWriter._recreate_text", "_encode", "LegacyDFXPWriter._recreate_text", "xml.sax.saxutils.escape")
    obs.append(ch("text_chars", "harness.C07_dfxp", timeout=T, functions=TX,
                  bounds="text of 1-3 arbitrary printable code points (U+0020-7E, U+00A0-2FF), three writers: the fragment is well-formed character data"))
    obs.append(ch("text_amp", "harness.C07_dfxp", timeout=T, functions=TX,
                  bounds="text '&' + 3 arbitrary printable code points (entity-looking text: &a;b &#1; &lt;), three writers"))
    obs.append(ch("nested_spans", "harness.C07_dfxp", timeout=T, functions=("DFXPWriter._recreate_text/_recreate_span", "LegacyDFXPWriter._recreate_text/_recreate_span"), exhaustive=True,
                  bounds="all balanced sequences of 6 nodes over TEXT / START italics / START colour / END with nesting depth <= 2, three writers: span markup balanced, no span left open"))
    obs.append(ch("inline_positioning", "harness.C07_dfxp", timeout=T, functions=("DFXPWriter(write_inline_positioning=True).write", "_recreate_span", "_recreate_p_tag", "SinglePositioningDFXPWriter.write"), exhaustive=True,
                  bounds="a positioned span with style italics / text-align / text-align+italics / colour x 3 layouts x DFXP and single-position writers x caption-level style and layout: every start tag well-formed (no attribute twice)"))
    obs.append(ch("style_names", "harness.C07_dfxp", timeout=T, functions=("DFXPWriter.write", "_recreate_styling_tag", "RegionCreator._get_new_id"), exhaustive=True,
                  bounds="document style called p / default / r / bottom0 x three writers: ids unique across styles and regions, references resolve"))
    obs.append(ch("p_style_props", "harness.C07_dfxp", timeout=T, functions=("DFXPWriter.write", "_recreate_styling_tag", "_recreate_p_tag", "dfxp.base._recreate_style"), exhaustive=True,
                  bounds="document style 'p' with expressible / inexpressible / empty properties x three writers: every style= reference resolves to exactly one definition"))
    obs.append(ch("style_named_like_region", "harness.C07_dfxp", timeout=T, functions=("DFXPWriter.write", "RegionCreator._get_new_id", "create_document_regions"), known="C07-style-id-equals-region-id",
                  bounds="document style called bottom / r0 / r1"))
    obs.append(ch("id_lang_value", "harness.C07_dfxp", timeout=T, functions=("DFXPWriter.write", "_recreate_styling_tag", "_recreate_p_tag", "LegacyDFXPWriter.write"),
                  bounds="class names (document style ids) and language codes 'k' + 1-2 characters over {\" ' > a ; space}: attribute content well-formed, style reference resolves, language code kept ('&' and '<' excluded: known finding)"))
    obs.append(ch("id_lang_amp_lt", "harness.C07_dfxp", timeout=T, functions=("DFXPWriter.write", "LegacyDFXPWriter.write"), known="C07-id-lang-unescaped",
                  bounds="class name / language code containing '&' or '<'"))
    if not q:
        obs.append(ch("integrity_dfxp_full", "harness.C07_dfxp", timeout=T, functions=("DFXPWriter.write", "RegionCreator"), exhaustive=True,
                      bounds="108 layout combinations over all four levels, 1-2 languages"))
    return obs


ASSUME = [
    "CrossHair 0.0.110 + z3; bs4 replaced by its contract stub which records attribute values and p.string verbatim (prettify(formatter=None) emits them unescaped); lxml's parse of the constant skeleton is outside; counterexamples of the value obligations are replayed through the real writer and lxml.etree",
    "attribute values bounded to 2 characters over the XML-relevant alphabet; text content escaping is C03; style and region ids are generated by pycaption or come from xml:id attributes (NCNames) and are not symbolic",
    "deterministic stand-in for hash() inside pycaption.geometry (see C09)",
]

if __name__ == "__main__":
    tier = tier_from_argv()
    obs = obligations(tier)
    only = only_from_argv()
    if only:
        obs = [o for o in obs if only in o.name]
    sys.exit(run_check(PID, obs, tier, selftests=[chre.selftest], assumptions=ASSUME,
                       level_text="bounded symbolic execution of DFXP document assembly: well-formedness of hand-made markup and attribute values, reference integrity of regions and styles"))
