import sys
sys.path[:0] = ["/verif"]
from vlib.run import ch, smt, run_check, tier_from_argv, only_from_argv
from vlib import chfmt

PID = "C02"
FM = ("pycaption.base.Caption.format_start", "pycaption.base.Caption.format_end", "pycaption.base.Caption._format_timestamp")
VT = ("pycaption.webvtt.WebVTTWriter._timestamp",)


def obligations(tier):
    T = 200 if tier == "quick" else 600
    B24 = "all integer instants 0 <= us < 24 h"
    obs = [
        ch("fmt_start_dot", "harness.C02_fmt", timeout=T, bounds=B24, functions=FM),
        ch("fmt_start_comma", "harness.C02_fmt", timeout=T, bounds=B24, functions=FM),
        ch("fmt_end_dot", "harness.C02_fmt", timeout=T, bounds=B24, functions=FM),
        ch("fmt_end_comma", "harness.C02_fmt", timeout=T, bounds=B24, functions=FM),
        ch("vtt_short", "harness.C02_fmt", timeout=T, bounds="all us < 1 h", functions=VT),
        ch("vtt_long", "harness.C02_fmt", timeout=T, bounds="all 1 h <= us < 24 h", functions=VT),
    ]
    W = ("SRTWriter.write", "SRTWriter._recreate_lang", "Caption.format_start/format_end")
    for f, b in (("srt_write_a0", "cue 1 start in [0, 5 s], cue 2 = (2 s, 5 s): merge iff equal"), ("srt_write_b1", "cue 2 end >= 1:02:03.004"),
                 ("srt_write_a2", "cue 3 start, all instants")):
        obs.append(ch(f, "harness.C02_writers", timeout=T * 2, functions=W, bounds=f"3 captions, one symbolic instant: {b}"))
    V = ("WebVTTWriter.write", "_convert_caption", "_timestamp")
    for f, b in (("vtt_write_a0", "cue 1 start in [0, 2 h]"), ("vtt_write_b1_long", "cue 2 end in [1 h, 2 h)"), ("vtt_write_b1_short", "cue 2 end < 1 h")):
        obs.append(ch(f, "harness.C02_writers", timeout=T * 2, functions=V, bounds=f"2 captions, one symbolic instant: {b}"))
    obs.append(ch("mdvd_write1", "harness.C02_writers", timeout=T * 2, functions=("MicroDVDWriter.write", "_recreate_lang"),
                  bounds="2 captions, first with symbolic start <= end < 24 h; _microtoframes replaced by its E2-proved contract"))
    D = ("DFXPWriter._recreate_p_tag", "LegacyDFXPWriter._recreate_p_tag", "Caption.format_start/format_end")
    for f in ("dfxp_p_begin", "dfxp_p_end", "legacy_p_begin_end"):
        obs.append(ch(f, "harness.C02_writers", timeout=T * 2, functions=D, bounds=B24 + "; bs4 replaced by contract stub"))
    S = ("SAMIWriter._recreate_p_tag", "_recreate_sync", "_recreate_blank_tag")
    obs.append(ch("dfxp_cue_structure", "harness.C02_writers", timeout=T * 2, functions=("DFXPWriter.write", "SinglePositioningDFXPWriter.write", "LegacyDFXPWriter.write", "merge_concurrent_captions"), exhaustive=True,
                  bounds="4 captions with each one of two timespans (16 arrangements) x 3 DFXP writers x written for the first time or after a single-position write of the same set: one p per caption in order; the legacy and single-position writers merge only consecutive captions with identical times"))
    obs.append(ch("sami_sync_2", "harness.C02_sami", timeout=T, functions=S, bounds="2 cues of one language, all ordered instants < 24 h"))
    obs.append(ch("sami_sync_3", "harness.C02_sami", timeout=T, functions=S, bounds="3 cues of one language, all ordered instants < 24 h"))
    obs.append(ch("sami_sync_float", "harness.C02_sami", timeout=T, functions=S, exhaustive=True,
                  bounds="2 cues, float instants chosen among 5 SCC frame instants (70 ordered choices)"))
    obs.append(smt("microdvd_frames", "smt.C02_fp", "microdvd_write", timeout=600, engine="E2 fplia (AST -> QF_LIA, z3)"))
    return obs


if __name__ == "__main__":
    tier = tier_from_argv()
    obs = obligations(tier)
    only = only_from_argv()
    if only:
        obs = [o for o in obs if only in o.name]
    sys.exit(run_check(PID, obs, tier, selftests=[chfmt.selftest]))
