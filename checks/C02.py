import sys
sys.path[:0] = ["/verif"]
from vlib.run import ch, smt, run_check, tier_from_argv, only_from_argv
from vlib import chfmt

PID = "C02"
FM = ("pycaption.base.Caption.format_start", "pycaption.base.Caption.format_end", "pycaption.base.Caption._format_timestamp")
VT = ("pycaption.webvtt.WebVTTWriter._timestamp",)


def obligations(tier):
    T = 120 if tier == "quick" else 400
    B24 = "all integer instants 0 <= us < 24 h"
    obs = [
        ch("fmt_start_dot", "harness.C02_fmt", timeout=T, bounds=B24, functions=FM),
        ch("fmt_start_comma", "harness.C02_fmt", timeout=T, bounds=B24, functions=FM),
        ch("fmt_end_dot", "harness.C02_fmt", timeout=T, bounds=B24, functions=FM),
        ch("fmt_end_comma", "harness.C02_fmt", timeout=T, bounds=B24, functions=FM),
        ch("vtt_short", "harness.C02_fmt", timeout=T, bounds="all us < 1 h", functions=VT),
        ch("vtt_long", "harness.C02_fmt", timeout=T, bounds="all 1 h <= us < 24 h", functions=VT),
    ]
    return obs


if __name__ == "__main__":
    tier = tier_from_argv()
    obs = obligations(tier)
    only = only_from_argv()
    if only:
        obs = [o for o in obs if only in o.name]
    sys.exit(run_check(PID, obs, tier, selftests=[chfmt.selftest]))
