import sys
sys.path[:0] = ["/verif"]
from vlib.run import ch, run_check, tier_from_argv, only_from_argv
from vlib import chfmt, chre

PID = "C20"
F = ("pycaption.detect_format", "DFXPReader.detect", "MicroDVDReader.detect", "WebVTTReader.detect", "SAMIReader.detect",
     "SRTReader.detect", "SCCReader.detect")


def obligations(tier):
    q = tier == "quick"
    T = 300 if q else 1500
    obs = [
        ch("detect_short", "harness.C20_detect", timeout=T, functions=F, bounds="all strings of length 0-3 over {0 1 9 LF CR { } - > space : ,}"),
        ch("detect_prefixed", "harness.C20_detect", timeout=T, functions=F, bounds="13 markers (format markers, '<', LF'<b>', blanks) followed by 0-2 alphabet characters"),
        ch("detect_suffixed1" if q else "detect_suffixed", "harness.C20_detect", timeout=T, functions=F,
           bounds=("0-1" if q else "0-2") + " alphabet characters followed by one of 10 format markers"),
        ch("detect_truncated", "harness.C20_detect", timeout=T, functions=F, exhaustive=True, bounds="a valid document of each of the 6 formats cut at every index 0..80"),
        ch("own_output", "harness.C20_detect", timeout=T, functions=F + ("all six writers' write()", "matching reader read()"), exhaustive=True,
           bounds="SRT, WebVTT, MicroDVD, SCC writers x 1-2 captions x 4 marker-free texts each x one or two lines"),
        ch("own_output_markup", "harness.C20_detect", timeout=T, functions=F, exhaustive=True,
           bounds="16 SAMI/DFXP documents written and read back concretely at import; detection of each under CrossHair"),
    ]
    obs.append(ch("own_output_float_times", "harness.C20_detect", timeout=T, functions=F + ("SRTWriter/WebVTTWriter/MicroDVDWriter/SCCWriter.write",), exhaustive=True,
                  bounds="4 pure-Python writers x 3 caption sets with float-valued times (as the SCC reader produces)"))
    obs.append(ch("detect_markers2", "harness.C20_detect", timeout=T, functions=F, exhaustive=True, bounds="every ordered pair of the 13 markers"))
    if not q:
        obs.append(ch("detect_marked", "harness.C20_detect", timeout=T, functions=F, bounds="marker + 0-1 characters + marker (100 marker pairs)"))
        obs.append(ch("detect_short5", "harness.C20_detect", timeout=T, functions=F, bounds="all strings of length 4-5 over the alphabet"))
    return obs


ASSUME = [
    "CrossHair 0.0.110 + z3; CrossHair's model of str.lower/splitlines/isdigit/in and of re.match (repaired matcher)",
    "alphabet {0 1 9 LF CR { } - > space : ,} plus the markers WEBVTT <SAMI> </tt> Scenarist_SCC V1.0 {1}{2} '1 LF' --> {0}{0} <sami </TT>",
    "own output: concrete caption sets chosen by selectors; DFXP/SAMI go through the real bs4",
]

if __name__ == "__main__":
    tier = tier_from_argv()
    obs = obligations(tier)
    only = only_from_argv()
    if only:
        obs = [o for o in obs if only in o.name]
    sys.exit(run_check(PID, obs, tier, selftests=[chfmt.selftest, chre.selftest], assumptions=ASSUME,
                       level_text="bounded symbolic checking of format detection on all short strings over the statement's alphabet"))
