import sys
sys.path[:0] = ["/verif"]
from vlib.run import ch, smt, run_check, tier_from_argv, only_from_argv
from vlib import chfmt, chre

PID = "C08"


def obligations(tier):
    q = tier == "quick"
    T = 700 if q else 2400
    obs = [
        ch("hop_srt", "harness.C08_chain", timeout=T, functions=("SRTWriter.write", "SRTReader.read"), bounds="2 cues, start of cue 1 symbolic over [0, 24 h): read(write(c)) = (R_ms(start), ...)"),
        ch("hop_srt_end", "harness.C08_chain", timeout=T, functions=("SRTWriter.write", "SRTReader.read"), bounds="2 cues, end of cue 2 symbolic over [1 ms, 24 h)"),
        ch("hop_vtt", "harness.C08_chain", timeout=T, functions=("WebVTTWriter.write", "WebVTTReader.read"), bounds="2 cues, start of cue 1 symbolic over [0, 2 h) (short and long timestamp forms)"),
        ch("hop_vtt_end", "harness.C08_chain", timeout=T, functions=("WebVTTWriter.write", "WebVTTReader.read"), bounds="2 cues, end of cue 2 symbolic over [1 ms, 1 h)"),
        ch("hop_mdvd_start", "harness.C08_chain", timeout=T, functions=("MicroDVDWriter.write", "MicroDVDReader.read"), bounds="2 cues, start of cue 2 symbolic over [2 frames, 24 h); float kernels replaced by their E2-proved integer contracts"),
        ch("hop_mdvd_end", "harness.C08_chain", timeout=T, functions=("MicroDVDWriter.write", "MicroDVDReader.read"), bounds="2 cues, end of cue 2 symbolic"),
        ch("hop_dfxp_begin", "harness.C08_chain", timeout=min(T, 300), functions=("Caption.format_start", "DFXPReader._convert_timestamp_to_microseconds"), bounds="begin attribute text for every instant in [0, 24 h) read back by the TTML time-expression kernel"),
        ch("hop_dfxp_end", "harness.C08_chain", timeout=min(T, 300), functions=("Caption.format_end", "DFXPReader._convert_timestamp_to_microseconds"), bounds="end attribute text for every instant in [0, 24 h)"),
        ch("hop_sami", "harness.C08_chain", timeout=T, functions=("SAMIWriter._recreate_p_tag", "_recreate_blank_tag", "SAMIReader._translate_lang"), bounds="2 cues with arbitrary instants (each spanning a millisecond boundary, separated by one): sync placement -> serialisation contract -> sync reading"),
        ch("text_hop", "harness.C08_chain", timeout=T, functions=("SRT/WebVTT/MicroDVD write() then read()",), bounds="a text line of 1-3 arbitrary printable code points through write+read of the three pure-Python formats (markup syntax of WebVTT excluded: C03+C04)"),
        ch("text_hop_vtt_amp", "harness.C08_chain", timeout=T, functions=("WebVTTWriter.write", "_encode_illegal_characters", "WebVTTReader.read", "_decode"), bounds="text '&' + 3 arbitrary printable code points (entity-looking text) through the WebVTT hop: exactly one level of references is decoded"),
        ch("text_hop_sami2" if q else "text_hop_sami3", "harness.C08_chain", timeout=T if q else 3 * T, functions=("SAMIWriter._recreate_text/_encode", "SAMIParser.feed", "SAMIReader.read/_translate_tag"), exhaustive=True, bounds=f"text 'x' + {'two' if q else 'three'} characters over & ; > < a # space through the SAMI hop (real SAMIParser; tree builder html.parser)"),
        ch("struct_chain", "harness.C08_chain", timeout=T, functions=("SRT/WebVTT/MicroDVD write() and read(), chained",), exhaustive=True,
           bounds="executed chains f1, f2, f1, f2 over the 9 ordered pairs of SRT / WebVTT / MicroDVD x 5 cue shapes (two lines, empty line, whitespace-only line, three lines, trailing break): cue count, text lines, times unchanged"),
        smt("dfxp_clock_ms", "smt.C01_fp", "dfxp_clock_fraction", args=dict(k=3, hmax=99), timeout=600, engine="E2 fplia (AST -> QF_LIA, z3)"),
        smt("mdvd_read_start", "smt.C01_fp", "microdvd_read_public", args=dict(fps_text="25.0", which="start", nmax=90000000), timeout=600, engine="E2 fplia (AST of read() + inlined helpers -> QF_LIA, z3)"),
        smt("mdvd_read_end", "smt.C01_fp", "microdvd_read_public", args=dict(fps_text="25.0", which="end", nmax=90000000), timeout=600, engine="E2 fplia (AST of read() + inlined helpers -> QF_LIA, z3)"),
        smt("mdvd_write", "smt.C02_fp", "microdvd_write", timeout=600, engine="E2 fplia (AST -> QF_LIA, z3)"),
        smt("algebra", "smt.C08_algebra", "algebra", timeout=300, engine="z3 LIA (constant div/mod)"),
    ]
    return obs


ASSUME = [
    "chains are not enumerated: each format's hop is shown to act on a cue as (R_f(start), R_f(end), N(text)); idempotence, absorption (R_frame o R_ms = R_frame = R_ms o R_frame) and monotonicity of the R maps, decided by z3 over [0, 24 h), give 'coarsest resolution on the chain' and 'a second pass changes nothing' for chains of any length",
    "DFXP and SAMI hops are compositions of the real writer kernel and the real reader kernel through the serialisation contract (attribute text handed over verbatim, bs4/lxml outside); text for DFXP/SAMI is C03 composed with C04",
    "one symbolic instant per contract; MicroDVD float kernels replaced in the hop obligations by their integer contracts, which the mdvd_read_*/mdvd_write obligations (E2) decide on the current source; cues whose start and end fall into frame 0 ({0}{0} is the frame-rate header) or into one millisecond for SAMI, and cue pairs that collapse onto equal times after truncation, are outside (C02's merge clause)",
]

if __name__ == "__main__":
    tier = tier_from_argv()
    obs = obligations(tier)
    only = only_from_argv()
    if only:
        obs = [o for o in obs if only in o.name]
    sys.exit(run_check(PID, obs, tier, selftests=[chfmt.selftest, chre.selftest], assumptions=ASSUME,
                       level_text="hop lemmas by bounded symbolic execution of write-then-read, chain claims by induction through solver-decided algebra of the resolution maps"))
