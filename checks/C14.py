import sys
sys.path[:0] = ["/verif"]
from vlib.run import ch, run_check, tier_from_argv, only_from_argv
from vlib import chre

PID = "C14"
S = ("SAMIWriter._recreate_p_tag", "_recreate_sync", "_find_closest_sync", "_recreate_blank_tag", "_recreate_p_lang")


def obligations(tier):
    q = tier == "quick"
    T = 400 if q else 1800
    obs = [
        ch("sami_two_langs_21", "harness.C14_langs", timeout=T, functions=S,
           bounds="primary language 2 cues + secondary 1 cue, all 6 instants arbitrary (ms, < 24 h), sorted and non-overlapping within a language: every interleaving / coincidence class"),
        ch("sami_three_langs_full", "harness.C14_langs", timeout=T, functions=S, bounds="3 languages with 1 cue each, all 6 instants arbitrary"),
        ch("sami_secondary_two_cues", "harness.C14_langs", timeout=T, functions=S, bounds="primary fixed (1-2 s, 3-4 s), secondary 2 cues with arbitrary instants in [0, 5 s]"),
        ch("sami_three_langs", "harness.C14_langs", timeout=T, functions=S, bounds="primary fixed, second and third language one cue each with arbitrary start in [0, 5 s]"),
        ch("dfxp_div_langs", "harness.C14_langs", timeout=T, functions=("DFXPReader.read (div loop, xml:lang fallbacks)",), exhaustive=True,
           bounds="1-3 divs, xml:lang on each div absent/en/fr/de, xml:lang on tt absent/en/fr/de (divs resolving to one language excluded)"),
        ch("lang_options", "harness.C14_langs", timeout=T, functions=("WebVTTWriter.write(lang=)", "DFXPWriter.write(force=)", "LegacyDFXPWriter.write(force=)", "_force_language"),
           exhaustive=True, bounds="3 language orders x requested language absent/en/fr/de/unknown x 3 writers"),
        ch("lang_options_prefix", "harness.C14_langs", timeout=T, functions=("WebVTTWriter.write(lang=)", "DFXPWriter.write(force=)", "LegacyDFXPWriter.write(force=)", "_force_language"), exhaustive=True,
           bounds="languages fr, fr-CA, de in 3 orders x option absent / each code / a fragment that is no code ('f-') x 3 writers"),
        ch("sami_prefix_roundtrip", "harness.C14_langs", timeout=T, functions=("SAMIWriter.write", "_recreate_stylesheet", "SAMIParser.handle_starttag/_find_lang", "SAMIReader.read/_translate_lang"), exhaustive=True,
           bounds="languages fr and fr-CA (both orders, optionally a third language), two cues each: SAMI write (stub soup) then real SAMIParser + SAMIReader (html.parser): every language keeps exactly its own cues"),
        ch("sami_find_lang", "harness.C14_langs", timeout=T, functions=("SAMIParser._find_lang",), exhaustive=True,
           bounds="0-3 attributes out of lang / known class / unknown class / id / upper-case LANG in every order"),
    ]
    if not q:
        obs.append(ch("sami_two_langs_22", "harness.C14_langs", timeout=T, functions=S, bounds="2 + 2 cues, all 8 instants arbitrary"))
        obs.append(ch("sami_primary_symbolic", "harness.C14_langs", timeout=T, functions=S, bounds="primary 2 cues arbitrary in [0, 6 s], secondary fixed"))
    return obs


ASSUME = [
    "CrossHair 0.0.110 + z3; instants are millisecond integers scaled by 1000 (sync placement depends on whole milliseconds only, C02 covers the truncation)",
    "bs4 replaced by its contract stub (harness/fakesoup.py) for SAMI sync placement and the DFXP writers; DFXP parser behind the reader's factory hook; SAMI reader language order is C10",
    "two divs / classes resolving to the same language and overlapping cues within a language are outside the statement's domain",
]

if __name__ == "__main__":
    tier = tier_from_argv()
    obs = obligations(tier)
    only = only_from_argv()
    if only:
        obs = [o for o in obs if only in o.name]
    sys.exit(run_check(PID, obs, tier, selftests=[chre.selftest], assumptions=ASSUME,
                       level_text="bounded symbolic execution of multi-language sync placement over arbitrary instants, language fallbacks and options"))
