import sys
sys.path[:0] = ["/verif"]
from vlib.run import ch, smt, run_check, tier_from_argv, only_from_argv
from vlib import chfmt, chre

PID = "C18"
G = "pycaption.geometry."


def obligations(tier):
    q = tier == "quick"
    T = 400 if q else 1200
    obs = [
        smt("eq_hash", "smt.C18_geom", "eq_hash", timeout=600, engine="E4 ast2euf (AST -> EUF+LRA, z3)"),
        smt("size_grammar", "smt.C18_geom", "size_grammar", args=dict(maxlen=12 if q else 20), timeout=600, engine="E3 re2smt (compiled regex -> z3 regex)"),
        ch("from_string_accepts", "harness.C18_geom", timeout=T, functions=(G + "Size.from_string",),
           bounds="all strings of length 0-3 over {0 1 5 . + - e p x m % c t space}"),
        ch("from_string_accepts_digit", "harness.C18_geom", timeout=T, functions=(G + "Size.from_string",),
           bounds="'5' followed by all strings of length 3 over the alphabet"),
        ch("print_parse", "harness.C18_geom", timeout=T, functions=(G + "Size.__str__", G + "Size.from_string", G + "Size.to_xml_attribute"), exhaustive=True,
           bounds="10 magnitudes (incl. rounding ties 0.125, 2.675, carry 99.999) x 5 units"),
        ch("padding_shorthand", "harness.C18_geom", timeout=T, functions=(G + "Padding.from_xml_attribute", G + "Padding.to_xml_attribute"), exhaustive=True,
           bounds="1-4 sizes chosen among 3 tokens each"),
        ch("two_dim_from_attr", "harness.C18_geom", timeout=T, functions=(G + "Point.from_xml_attribute", G + "Stretch.from_xml_attribute"), exhaustive=True,
           bounds="two sizes chosen among 4 tokens, Point and Stretch"),
        ch("non_mutation", "harness.C18_geom", timeout=T, functions=(G + "Layout.as_percentage_of", G + "Layout.fit_to_screen"), exhaustive=True,
           bounds="layouts with origin in 5 units, optional extent (5 units)/padding/alignment, origin inside or beyond the safe area"),
    ]
    return obs


ASSUME = [
    "E4: numbers are reals (NaN/inf outside), hash() of leaves uninterpreted, Alignment objects with both components None are never constructed",
    "E3: ASCII semantics of \\d; CPython's '$' also accepts one trailing newline (outside the statement's alphabet)",
    "E1: CrossHair cannot carry symbolic floats, magnitudes are finite choices; float() is stubbed inside Size.from_string for the accept/reject obligations",
]

if __name__ == "__main__":
    tier = tier_from_argv()
    obs = obligations(tier)
    only = only_from_argv()
    if only:
        obs = [o for o in obs if only in o.name]
    sys.exit(run_check(PID, obs, tier, selftests=[chre.selftest], assumptions=ASSUME,
                       level_text="solver-decided equality/hash laws (EUF+LRA from the ASTs), regex/grammar equivalence, and bounded symbolic execution of parsing/printing"))
