"""CrossHair tuning that does not change what is decided.

no_shortcircuit: CrossHair may, with probability 0.3 per call, *skip* a called function that has a return
annotation and put an arbitrary value of that type in its place ("short-circuiting", an exploration heuristic
whose branches can only end inconclusive, never confirmed).  Library code under the readers (soupsieve's _hash,
cssutils) has many such functions, so most iterations were spent on branches that cannot conclude.  The patch
always calls into the function; functions explicitly registered as `specs_complete` are still skipped."""


def install():
    import crosshair.core as core
    if getattr(core.consider_shortcircuit, "_verif", False):
        return
    orig = core.consider_shortcircuit

    def consider_shortcircuit(fn, sig, bound, subconditions, allow_interpretation):
        if allow_interpretation:
            return None
        return orig(fn, sig, bound, subconditions, allow_interpretation)
    consider_shortcircuit._verif = True
    core.consider_shortcircuit = consider_shortcircuit
