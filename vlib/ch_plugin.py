# Loaded with `crosshair check --extra_plugin /verif/vlib/ch_plugin.py` (PYTHONPATH=/verif).
# A plugin file is exec'd inside a function, so the code lives in importable modules.
import vlib.chfmt
import vlib.chre
vlib.chfmt.install()
vlib.chre.install()
import vlib.chopt
vlib.chopt.install()
