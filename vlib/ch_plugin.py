# Loaded with `crosshair check --extra_plugin /verif/vlib/ch_plugin.py` (PYTHONPATH=/verif).
# A plugin file is exec'd inside a function, so the code lives in importable modules.
import vlib.chfmt
vlib.chfmt.install()
