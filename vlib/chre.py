"""CrossHair plugin body (E1, plugin 3): repair of CrossHair 0.0.110's symbolic regex matcher.

`crosshair.libimpl.relib._internal_match_patterns` matches the mandatory repetitions of a
repeat node (`X{m,n}` with m >= 1, which is also how it re-enters an optional group `(...)?`)
against the sub-pattern *in isolation*, without the continuation, so a lazy quantifier inside
an optional group (`(?:\\s+(.*?))?\\s*$`, pycaption's WebVTT timing line) settles for the
empty match and the overall match fails where CPython's `re` succeeds.  The wrapper below
unrolls one mandatory repetition into the pattern list (`X{m,n} rest` -> `X X{m-1,n-1} rest`)
so that the continuation takes part in the choice.  Nothing else is changed.

`selftest()` compares the patched matcher with CPython's `re` on pycaption's own patterns
and sample lines (concrete-valued symbolic strings) on every run.
"""
import re

from crosshair.libimpl import relib

_orig = relib._internal_match_patterns
MIN_REPEAT, MAX_REPEAT, MAXREPEAT = relib.MIN_REPEAT, relib.MAX_REPEAT, relib.MAXREPEAT


def _patched(top_patterns, flags, string, offset, allow_empty=True, ord=ord, chr=chr):
    if len(top_patterns) > 0:
        pattern = top_patterns[0]
        op = pattern[0]
        if op is MIN_REPEAT or op is MAX_REPEAT:
            mn, mx, sub = pattern[1]
            if mn >= 1 and (mx == MAXREPEAT or mx >= mn):
                new_mx = MAXREPEAT if mx == MAXREPEAT else mx - 1
                new_top = list(sub) + [(op, (mn - 1, new_mx, sub))] + list(top_patterns[1:])
                return _patched(new_top, flags, string, offset, allow_empty, ord=ord, chr=chr)
    return _orig(top_patterns, flags, string, offset, allow_empty, ord=ord, chr=chr)


def install():
    relib._internal_match_patterns = _patched


_CASES = None


def _cases():
    import pycaption.webvtt as w
    import pycaption.dfxp.base as d
    pats = [w.TIMING_LINE_PATTERN.pattern, w.TIMESTAMP_PATTERN.pattern, w.VOICE_SPAN_PATTERN.pattern,
            w.OTHER_SPAN_PATTERN.pattern, d.TIME_EXPRESSION_PATTERN.pattern,
            r"{(\d+)}{(\d+)}(.*)", r"([0-9:;]*)([\s\t]*)((.)*)", r"\d{2}:\d{2}:\d{2}[:;]\d{1,2}",
            "^(?:[\n\r]+\\s*)?(.+)",
            r"^(((?P<value>\d+(\.\d+)?)(?P<unit>px|em|%|c|pt))|0)$"]
    strs = ["x --> y z", "00:03.000 --> 00:04.500 align:left size:50%", "00:00:01.000 --> 00:00:02.000",
            "00:01.000-->00:02.000", "01:02:03.004", "99:59.123", "<v Bob>hi</v>", "<v.loud Ann B>x", "a<i>b</i>c<00:01.000>d",
            "<c.red>t</c> & <x>", "00:00:01:15", "00:00:01.5", "1.5s", "15f", "2h", "12ms", "1t", "{1}{25}a|b", "{0}{0}25",
            "00:00:01:00\t9420 9420 94ae", "00:00:01;00", "\n   foo", "foo\n bar", "", "10px", "1.5%", "0", "5c", "2.50pt", "1e3px"]
    return pats, strs


def selftest():
    import warnings
    from crosshair.core_and_libs import standalone_statespace, NoTracing
    from crosshair.libimpl.builtinslib import LazyIntSymbolicStr
    with warnings.catch_warnings():
        warnings.simplefilter("ignore")
        import sre_parse
    install()
    pats, strs = _cases()
    n = 0
    with standalone_statespace, NoTracing():
        for p in pats:
            c = re.compile(p)
            parsed = sre_parse.parse(p)
            for s in strs:
                real = c.match(s)
                sym = LazyIntSymbolicStr(list(map(ord, s)))
                got = _patched(parsed, 0, sym, 0)
                if (real is None) != (got is None):
                    raise AssertionError(f"chre selftest: pattern {p!r} on {s!r}: re={real} model={got}")
                if real is not None:
                    if tuple(got.span()) != real.span():
                        raise AssertionError(f"chre selftest span: {p!r} on {s!r}: re={real.span()} model={got.span()}")
                n += 1
    return n
