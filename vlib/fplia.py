"""E2 - exact IEEE-754 binary64 arithmetic as conjunctive QF_LIA queries, driven by a
partial evaluator over the *AST of the real function* (read from /repo at run time).

A double in binade e is m * 2**(e-52) with 2**52 <= m <= 2**53.  For a fixed binade,
"d is the round-to-nearest-even image of the rational P/Q" is linear in (m, P):
    2*|m*2**t*Q - P| <= 2**t*Q   and   (tie => m even)          (t = e-52)
The evaluator walks the function body; whenever a float operation must round it forks
into one case per binade the exact result can lie in (pruned with rational intervals).
Every complete path gives one conjunctive query  pre & path-constraints & not post.
All `unsat` => the property holds for every input in the stated ranges; a model is a
concrete counterexample, replayed on the real function by the caller.

Supported: ints (unbounded, exact), floats (finite, normal range), + - * / // % ** with
the restrictions that * and / need one operand that is constant on the path (keeps the
encoding linear), int()/float()/math.floor()/abs()/round(x, n) is not needed here,
comparisons, if/elif/else, return, raise, augmented assignment, attribute/subscript
reads of concrete module data, and the small symbolic string stubs below.
Unsupported syntax raises Unsupported (-> harness error, never a pass).
Subnormals, infinities and NaN are outside: ranges are asserted to stay within
2**-200 .. 2**200 (checked on the intervals).
"""
from __future__ import annotations

import ast
import copy
import inspect
import math
import textwrap
import time
import types
from fractions import Fraction as Fr

import z3


class Unsupported(Exception):
    pass


class Ctx:
    def __init__(self, timeout_ms=60000):
        self.n = 0
        self.queries = 0
        self.solver_s = 0.0
        self.timeout_ms = timeout_ms

    def fresh(self, p="m"):
        self.n += 1
        return z3.Int(f"{p}!{self.n}")

    def check(self, cons):
        s = z3.Solver()
        s.set("timeout", self.timeout_ms)
        s.add(*cons)
        t = time.time()
        r = s.check()
        self.solver_s += time.time() - t
        self.queries += 1
        rs = str(r)
        return rs, (s.model() if rs == "sat" else None)


# ---------------------------------------------------------------------------
# symbolic values
# ---------------------------------------------------------------------------
class _Sym:
    """symbolic values are immutable: copying an environment shares them"""

    def __deepcopy__(self, memo):
        return self

    def __copy__(self):
        return self


class RaiseV:
    """an exception raised while evaluating an expression (propagates to the enclosing statement)"""

    def __init__(self, exc_type, text=""):
        self.exc_type, self.text = exc_type, text

    def __repr__(self):
        return f"RaiseV({getattr(self.exc_type, '__name__', self.exc_type)})"


class IntV(_Sym):
    """exact integer: z3 Int term with python-int bounds"""

    def __init__(self, t, lo, hi):
        self.t, self.lo, self.hi = t, int(lo), int(hi)

    def __repr__(self):
        return f"IntV({self.t},[{self.lo},{self.hi}])"


class RatV(_Sym):
    """exact rational P/Q (Q python int > 0) with Fraction bounds; is_double marks a value
    known to be exactly representable as a binary64"""

    def __init__(self, P, Q, lo, hi, is_double=False):
        self.P, self.Q, self.lo, self.hi, self.is_double = P, int(Q), Fr(lo), Fr(hi), is_double

    def __repr__(self):
        return f"RatV(/{self.Q},[{float(self.lo)},{float(self.hi)}],dbl={self.is_double})"


class FracV(RatV):
    """exact rational number object (fractions.Fraction / exact decimal): arithmetic does not round"""


class DecStr(_Sym):
    """a decimal numeral string  <p>/10**k  (k fraction digits), p an IntV; models what
    re.Match.group returns for patterns like \\d+(\\.\\d+)?"""

    def __init__(self, p: IntV, k: int):
        self.p, self.k = p, k


class IntStr(_Sym):
    """a string of ASCII digits denoting the IntV"""

    def __init__(self, v: IntV):
        self.v = v


class DigStr(_Sym):
    """a string of exactly `width` ASCII digits (leading zeros kept) denoting the IntV v, 0 <= v < 10**width;
    models what re.Match.group returns for a fixed-length digit group"""

    def __init__(self, v: IntV, width: int):
        self.v, self.width = v, int(width)


class SymFmt(_Sym):
    """a formatted string with symbolic holes: list of str / symbolic values, in order"""

    def __init__(self, parts):
        self.parts = list(parts)

    def __add__(self, other):
        return SymFmt(self.parts + (other.parts if isinstance(other, SymFmt) else [other]))

    def __radd__(self, other):
        return SymFmt([other] + self.parts)

    def symbols(self):
        return [p for p in self.parts if isinstance(p, (IntV, RatV))]


def _sym(v):
    return isinstance(v, (IntV, RatV))


def _has_sym(x, depth=3):
    """does x (an argument) carry symbolic values, directly or inside its attributes / items?"""
    if isinstance(x, _Sym):
        return True
    if depth == 0 or x is None or isinstance(x, (int, float, str, bytes, bool, type, types.FunctionType)):
        return False
    if isinstance(x, (list, tuple, set)):
        return any(_has_sym(y, depth - 1) for y in x)
    if isinstance(x, dict):
        return any(_has_sym(y, depth - 1) for y in x.values())
    d = getattr(x, "__dict__", None)
    if isinstance(d, dict):
        return any(_has_sym(y, depth - 1) for y in d.values())
    return False


def const_rat(x) -> RatV:
    f = Fr(x)
    return RatV(z3.IntVal(f.numerator), f.denominator, f, f, is_double=isinstance(x, float))


def to_rat(v) -> RatV:
    if isinstance(v, RatV):
        return v
    if isinstance(v, IntV):
        return RatV(v.t, 1, v.lo, v.hi)
    if isinstance(v, bool):
        raise Unsupported("bool in arithmetic")
    if isinstance(v, (int, float)):
        return const_rat(v)
    if isinstance(v, Fr):
        return RatV(z3.IntVal(v.numerator), v.denominator, v, v)
    raise Unsupported(f"to_rat {type(v)}")


def _ival_mul(a, b):
    c = [a.lo * b.lo, a.lo * b.hi, a.hi * b.lo, a.hi * b.hi]
    return min(c), max(c)


def r_add(a: RatV, b: RatV):
    return RatV(a.P * b.Q + b.P * a.Q, a.Q * b.Q, a.lo + b.lo, a.hi + b.hi)


def r_sub(a: RatV, b: RatV):
    return RatV(a.P * b.Q - b.P * a.Q, a.Q * b.Q, a.lo - b.hi, a.hi - b.lo)


def _is_const(r: RatV):
    return r.lo == r.hi


def r_mul(a: RatV, b: RatV):
    if not (_is_const(a) or _is_const(b)):
        raise Unsupported("product of two symbolic values (non-linear)")
    if _is_const(b):
        a, b = b, a
    c = a.lo  # constant Fraction
    lo, hi = _ival_mul(a, b)
    return RatV(b.P * c.numerator, b.Q * c.denominator, lo, hi) if c >= 0 else RatV(
        b.P * c.numerator, b.Q * c.denominator, lo, hi)


def r_div(a: RatV, b: RatV):
    if not _is_const(b):
        raise Unsupported("division by a symbolic value (non-linear)")
    c = b.lo
    if c == 0:
        raise Unsupported("division by zero constant")
    return r_mul(a, RatV(z3.IntVal(c.denominator), c.numerator, 1 / c, 1 / c) if c > 0 else
                 RatV(z3.IntVal(-c.denominator), -c.numerator, 1 / c, 1 / c))


def _floor_log2(f: Fr) -> int:
    """largest e with 2**e <= f  (f > 0)"""
    e = f.numerator.bit_length() - f.denominator.bit_length()
    while Fr(2) ** e > f:
        e -= 1
    while Fr(2) ** (e + 1) <= f:
        e += 1
    return e


_EPS = Fr(1, 2 ** 52)


def rounds(ctx: Ctx, r: RatV):
    """yield (constraints, RatV double) for every binade case of RNE(r)."""
    if r.is_double:
        yield [], r
        return
    if r.lo == r.hi:  # constant: round in python
        d = r.lo.numerator / r.lo.denominator  # correctly rounded int/int true division
        yield [], const_rat(float(d))
        return
    if max(abs(r.lo), abs(r.hi)) > Fr(2) ** 200:
        raise Unsupported("magnitude outside the stated range")
    if r.lo <= 0 <= r.hi:
        yield [r.P == 0], RatV(z3.IntVal(0), 1, 0, 0, True)
    for sign in (1, -1):
        if sign == 1:
            if r.hi <= 0:
                continue
            lo = max(r.lo, Fr(1, r.Q))  # a non-zero P/Q has magnitude >= 1/Q
            hi = r.hi
        else:
            if r.lo >= 0:
                continue
            lo = max(-r.hi, Fr(1, r.Q))
            hi = -r.lo
        if lo > hi:
            continue
        if lo < Fr(1, 2 ** 200):
            raise Unsupported("magnitude below the stated range")
        for e in range(_floor_log2(lo), _floor_log2(hi) + 1):
            t = e - 52
            m = ctx.fresh("m")
            P = r.P if sign == 1 else -r.P  # magnitude numerator
            lowF, highF = Fr(2) ** e, Fr(2) ** (e + 1)
            blo = [P * lowF.denominator >= lowF.numerator * r.Q, P * highF.denominator <= highF.numerator * r.Q]
            if t >= 0:
                A = m * (2 ** t) * r.Q - P
                H = (2 ** t) * r.Q
                val = RatV(m * (2 ** t) * sign, 1, 0, 0, True)
            else:
                A = m * r.Q - P * (2 ** (-t))
                H = r.Q
                val = RatV(m * sign, 2 ** (-t), 0, 0, True)
            cons = blo + [m >= 2 ** 52, m <= 2 ** 53, 2 * A <= H, 2 * A >= -H,
                          z3.Implies(z3.Or(2 * A == H, 2 * A == -H), m % 2 == 0)]
            vlo = max(Fr(2) ** e, lo * (1 - _EPS))
            vhi = min(Fr(2) ** (e + 1), hi * (1 + _EPS))
            if sign == 1:
                val.lo, val.hi = vlo, vhi
            else:
                val.lo, val.hi = -vhi, -vlo
            yield cons, val


def trunc_cases(ctx: Ctx, r: RatV, mode="int"):
    """int(r) (truncation toward zero) or floor(r): yield (constraints, IntV)."""
    q = ctx.fresh("q")
    if mode == "floor" or r.lo >= 0:
        lo, hi = math.floor(r.lo), math.floor(r.hi)
        yield [q * r.Q <= r.P, (q + 1) * r.Q > r.P], IntV(q, lo, hi)
    elif r.hi <= 0:
        lo, hi = math.ceil(r.lo), math.ceil(r.hi)
        yield [q * r.Q >= r.P, (q - 1) * r.Q < r.P], IntV(q, lo, hi)
    else:
        yield [r.P >= 0, q * r.Q <= r.P, (q + 1) * r.Q > r.P], IntV(q, 0, math.floor(r.hi))
        q2 = ctx.fresh("q")
        yield [r.P < 0, q2 * r.Q >= r.P, (q2 - 1) * r.Q < r.P], IntV(q2, math.ceil(r.lo), 0)


# ---------------------------------------------------------------------------
# partial evaluator
# ---------------------------------------------------------------------------
class _Return(Exception):
    pass


class Outcome:
    def __init__(self, kind, value, cons, env):
        self.kind, self.value, self.cons, self.env = kind, value, cons, env


class Evaluator:
    """Evaluates a python function's AST on a mix of concrete and symbolic values.
    Expressions evaluate to a list of (value, constraints) alternatives."""

    INLINE_PREFIX = "pycaption"

    def __init__(self, ctx: Ctx, globs: dict, stubs: dict | None = None, depth: int = 0):
        self.ctx = ctx
        self.globs = globs
        self.stubs = stubs or {}
        self.depth = depth

    # ---- expressions -----------------------------------------------------
    def ev(self, node, env, cons):
        meth = getattr(self, "ev_" + type(node).__name__, None)
        if meth is None:
            raise Unsupported(f"expression {type(node).__name__} at line {getattr(node, 'lineno', '?')}")
        return meth(node, env, cons)

    def ev_Constant(self, node, env, cons):
        return [(node.value, cons)]

    def ev_Name(self, node, env, cons):
        if node.id in env:
            return [(env[node.id], cons)]
        if node.id in self.globs:
            return [(self.globs[node.id], cons)]
        import builtins
        if hasattr(builtins, node.id):
            return [(getattr(builtins, node.id), cons)]
        raise Unsupported(f"unbound name {node.id}")

    def ev_Attribute(self, node, env, cons):
        out = []
        for v, c in self.ev(node.value, env, cons):
            if isinstance(v, RaiseV):
                out.append((v, c))
            elif _sym(v) or isinstance(v, (DecStr, IntStr, DigStr)):
                out.append((("boundmethod", v, node.attr), c))
            else:
                try:
                    out.append((getattr(v, node.attr), c))
                except AttributeError as e:
                    out.append((RaiseV(AttributeError, str(e)), c))
        return out

    def ev_Subscript(self, node, env, cons):
        out = []
        for v, c in self.ev(node.value, env, cons):
            if isinstance(v, RaiseV):
                out.append((v, c))
                continue
            for i, c2 in self.ev(node.slice, env, c):
                if isinstance(i, RaiseV):
                    out.append((i, c2))
                    continue
                if _sym(i):
                    raise Unsupported("symbolic subscript")
                if isinstance(v, DigStr):
                    if not (isinstance(i, slice) and i.start in (None, 0) and i.step in (None, 1) and isinstance(i.stop, int) and i.stop >= 0):
                        raise Unsupported("subscript of a digit string other than [:n]")
                    if i.stop >= v.width:
                        out.append((v, c2))
                    else:
                        cut = 10 ** (v.width - i.stop)
                        q = self.ctx.fresh("dq")
                        out.append((DigStr(IntV(q, v.v.lo // cut, v.v.hi // cut), i.stop),
                                    c2 + [q * cut <= v.v.t, (q + 1) * cut > v.v.t]))
                    continue
                try:
                    out.append((v[i], c2))
                except (KeyError, IndexError, TypeError) as e:
                    out.append((RaiseV(type(e), str(e)), c2))
        return out

    def ev_Slice(self, node, env, cons):
        parts = []
        for p in (node.lower, node.upper, node.step):
            if p is None:
                parts.append(None)
            else:
                (v, _), = self.ev(p, env, cons)
                parts.append(v)
        return [(slice(*parts), cons)]

    def ev_Tuple(self, node, env, cons):
        outs = [([], cons)]
        for e in node.elts:
            outs = [(vs + [v], c2) for vs, c in outs for v, c2 in self.ev(e, env, c)]
        return [(tuple(vs), c) for vs, c in outs]

    def ev_List(self, node, env, cons):
        return [(list(v), c) for v, c in self.ev_Tuple(node, env, cons)]

    def ev_UnaryOp(self, node, env, cons):
        out = []
        for v, c in self.ev(node.operand, env, cons):
            if isinstance(v, RaiseV):
                out.append((v, c))
            elif isinstance(node.op, ast.USub):
                if _sym(v):
                    for v2, c2 in self.binop(ast.Sub(), 0, v, c):
                        out.append((v2, c2))
                else:
                    out.append((-v, c))
            elif isinstance(node.op, ast.Not):
                if isinstance(v, z3.BoolRef):
                    out.append((z3.Not(v), c))
                elif _sym(v):
                    out.append((to_rat(v).P == 0, c))
                elif isinstance(v, (DecStr, IntStr, DigStr)):
                    out.append((False, c))
                else:
                    out.append((not v, c))
            elif isinstance(node.op, ast.UAdd):
                out.append((v, c))
            else:
                raise Unsupported("unary op")
        return out

    def ev_BinOp(self, node, env, cons):
        out = []
        for a, c in self.ev(node.left, env, cons):
            if isinstance(a, RaiseV):
                out.append((a, c))
                continue
            for b, c2 in self.ev(node.right, env, c):
                if isinstance(b, RaiseV):
                    out.append((b, c2))
                    continue
                out.extend(self.binop(node.op, a, b, c2))
        return out

    def binop(self, op, a, b, cons):
        if isinstance(op, ast.Add) and (isinstance(a, (IntStr, DigStr)) or isinstance(b, (IntStr, DigStr))) and \
                isinstance(a, (IntStr, DigStr, str, SymFmt)) and isinstance(b, (IntStr, DigStr, str, SymFmt)):
            pa = a.parts if isinstance(a, SymFmt) else [a]
            pb = b.parts if isinstance(b, SymFmt) else [b]
            return [(SymFmt(pa + pb), cons)]
        if isinstance(op, ast.Add) and (isinstance(a, SymFmt) or isinstance(b, SymFmt)):
            return [(a + b if isinstance(a, SymFmt) else b.__radd__(a), cons)]
        if not _sym(a) and not _sym(b):
            import operator
            f = {ast.Add: operator.add, ast.Sub: operator.sub, ast.Mult: operator.mul, ast.Div: operator.truediv,
                 ast.FloorDiv: operator.floordiv, ast.Mod: operator.mod, ast.Pow: operator.pow}.get(type(op))
            if f is None:
                raise Unsupported(f"operator {type(op).__name__}")
            if _has_sym(a, 1) or _has_sym(b, 1):
                # objects carrying symbolic values: use the class's own operator method, inlined
                name = {ast.Add: "__add__", ast.Sub: "__sub__", ast.Mult: "__mul__"}.get(type(op))
                m = getattr(type(a), name, None) if name else None
                if m is None:
                    raise Unsupported("operator on object with symbolic fields")
                return self.call(m, [a, b], {}, cons)
            try:
                return [(f(a, b), cons)]
            except Exception as e:
                return [(RaiseV(type(e), str(e)), cons)]
        a_int = isinstance(a, IntV) or (isinstance(a, int) and not isinstance(a, bool))
        b_int = isinstance(b, IntV) or (isinstance(b, int) and not isinstance(b, bool))
        ra, rb = to_rat(a), to_rat(b)
        a_fr = isinstance(a, (FracV, Fr))
        b_fr = isinstance(b, (FracV, Fr))
        if (a_fr and (b_fr or b_int)) or (b_fr and a_int):
            f = {ast.Add: r_add, ast.Sub: r_sub, ast.Mult: r_mul, ast.Div: r_div}.get(type(op))
            if f is None:
                raise Unsupported("Fraction operator")
            r = f(ra, rb)
            return [(FracV(r.P, r.Q, r.lo, r.hi), cons)]
        if a_int and b_int and not isinstance(op, ast.Div):
            # exact integer arithmetic
            if isinstance(op, ast.Add):
                r = r_add(ra, rb)
            elif isinstance(op, ast.Sub):
                r = r_sub(ra, rb)
            elif isinstance(op, ast.Mult):
                r = r_mul(ra, rb)
            elif isinstance(op, (ast.FloorDiv, ast.Mod)):
                if not _is_const(rb) or rb.lo <= 0:
                    raise Unsupported("// or % by non-constant or non-positive")
                k = int(rb.lo)
                q = self.ctx.fresh("q")
                rem = ra.P - q * k
                c2 = cons + [rem >= 0, rem < k]
                if isinstance(op, ast.FloorDiv):
                    return [(IntV(q, math.floor(ra.lo / k), math.floor(ra.hi / k)), c2)]
                return [(IntV(rem, 0, k - 1), c2)]
            else:
                raise Unsupported(f"int operator {type(op).__name__}")
            assert r.Q == 1
            return [(IntV(r.P, math.floor(r.lo), math.ceil(r.hi)), cons)]
        # float arithmetic: ints are converted exactly (|int| < 2**53 is asserted on intervals)
        for x, was_int in ((ra, a_int), (rb, b_int)):
            if was_int and not isinstance(op, ast.Div) and max(abs(x.lo), abs(x.hi)) >= 2 ** 53:
                raise Unsupported("int operand of float op may exceed 2**53")
        if isinstance(op, ast.Add):
            r = r_add(ra, rb)
        elif isinstance(op, ast.Sub):
            r = r_sub(ra, rb)
        elif isinstance(op, ast.Mult):
            r = r_mul(ra, rb)
        elif isinstance(op, ast.Div):
            # int/int true division is correctly rounded in CPython as well
            r = r_div(ra, rb)
        else:
            raise Unsupported(f"float operator {type(op).__name__}")
        return [(d, cons + c) for c, d in rounds(self.ctx, r)]

    def ev_Compare(self, node, env, cons):
        if len(node.ops) != 1:
            # chained comparison: a < b < c  ==  (a < b) and (b < c) ; evaluate pairwise
            vals = [node.left] + node.comparators
            parts = []
            for i, op in enumerate(node.ops):
                parts.append(ast.Compare(left=vals[i], ops=[op], comparators=[vals[i + 1]]))
            return self.ev(ast.BoolOp(op=ast.And(), values=parts), env, cons)
        out = []
        op = node.ops[0]
        for a, c in self.ev(node.left, env, cons):
            if isinstance(a, RaiseV):
                out.append((a, c))
                continue
            for b, c2 in self.ev(node.comparators[0], env, c):
                if isinstance(b, RaiseV):
                    out.append((b, c2))
                    continue
                if isinstance(op, (ast.Is, ast.IsNot)) and (a is None or b is None):
                    same = a is None and b is None
                    out.append((same if isinstance(op, ast.Is) else not same, c2))
                    continue
                if not _sym(a) and not _sym(b):
                    import operator
                    f = {ast.Eq: operator.eq, ast.NotEq: operator.ne, ast.Lt: operator.lt, ast.LtE: operator.le,
                         ast.Gt: operator.gt, ast.GtE: operator.ge, ast.In: lambda x, y: x in y,
                         ast.NotIn: lambda x, y: x not in y, ast.Is: lambda x, y: x is y,
                         ast.IsNot: lambda x, y: x is not y}[type(op)]
                    out.append((f(a, b), c2))
                    continue
                ra, rb = to_rat(a), to_rat(b)
                L, R = ra.P * rb.Q, rb.P * ra.Q
                t = {ast.Eq: L == R, ast.NotEq: L != R, ast.Lt: L < R, ast.LtE: L <= R, ast.Gt: L > R,
                     ast.GtE: L >= R}.get(type(op))
                if t is None:
                    raise Unsupported("comparison op on symbolic")
                # decide by intervals when possible (keeps path count down)
                if ra.hi < rb.lo:
                    dec = {ast.Eq: False, ast.NotEq: True, ast.Lt: True, ast.LtE: True, ast.Gt: False, ast.GtE: False}[type(op)]
                    out.append((dec, c2))
                elif ra.lo > rb.hi:
                    dec = {ast.Eq: False, ast.NotEq: True, ast.Lt: False, ast.LtE: False, ast.Gt: True, ast.GtE: True}[type(op)]
                    out.append((dec, c2))
                else:
                    out.append((t, c2))
        return out

    def ev_BoolOp(self, node, env, cons):
        # short-circuit semantics with forking on symbolic conditions
        is_and = isinstance(node.op, ast.And)
        results = []

        def go(i, cons):
            for v, c in self.ev(node.values[i], env, cons):
                last = i == len(node.values) - 1
                if isinstance(v, RaiseV):
                    results.append((v, c))
                elif isinstance(v, z3.BoolRef):
                    if last:
                        results.append((v, c))
                    elif is_and:
                        results.append((False, c + [z3.Not(v)]))
                        go(i + 1, c + [v])
                    else:
                        results.append((True, c + [v]))
                        go(i + 1, c + [z3.Not(v)])
                else:
                    if _sym(v):
                        if last:
                            results.append((v, c))
                            continue
                        nz = to_rat(v).P != 0
                        if is_and:
                            results.append((v, c + [z3.Not(nz)]))   # falsy operand is the value of the `and`
                            go(i + 1, c + [nz])
                        else:
                            results.append((v, c + [nz]))
                            go(i + 1, c + [z3.Not(nz)])
                        continue
                    if last or (is_and and not v) or (not is_and and v):
                        results.append((v, c))
                    else:
                        go(i + 1, c)
        go(0, cons)
        return results

    def ev_IfExp(self, node, env, cons):
        out = []
        for t, c in self.branch(node.test, env, cons):
            if isinstance(t, RaiseV):
                out.append((t, c))
            else:
                out.extend(self.ev(node.body if t else node.orelse, env, c))
        return out

    def branch(self, test, env, cons):
        """yield (python bool, constraints) alternatives for a condition"""
        out = []
        for v, c in self.ev(test, env, cons):
            if isinstance(v, RaiseV):
                out.append((v, c))
            elif isinstance(v, z3.BoolRef):
                out.append((True, c + [v]))
                out.append((False, c + [z3.Not(v)]))
            elif _sym(v):
                r = to_rat(v)
                out.append((True, c + [r.P != 0]))
                out.append((False, c + [r.P == 0]))
            elif isinstance(v, (DecStr, IntStr, DigStr)):
                out.append((True, c))
            else:
                out.append((bool(v), c))
        return out

    def ev_Call(self, node, env, cons):
        if node.keywords:
            kw_alts = [({}, cons)]
            for k in node.keywords:
                kw_alts = [({**d, k.arg: v}, c2) for d, c in kw_alts for v, c2 in self.ev(k.value, env, c)]
        else:
            kw_alts = [({}, cons)]
        out = []
        for kws, c0 in kw_alts:
            for f, c in self.ev(node.func, env, c0):
                arg_alts = [([], c)]
                for a in node.args:
                    arg_alts = [(vs + [v], c3) for vs, c2 in arg_alts for v, c3 in self.ev(a, env, c2)]
                for args, c2 in arg_alts:
                    bad = [a for a in [f] + args + list(kws.values()) if isinstance(a, RaiseV)]
                    if bad:
                        out.append((bad[0], c2))
                    else:
                        out.extend(self.call(f, args, kws, c2))
        return out

    def call(self, f, args, kws, cons):
        ctx = self.ctx
        f0 = f.__func__ if isinstance(f, types.MethodType) else f
        try:
            if f0 in self.stubs.get("__native__", ()):
                # declared not to touch symbolic values (e.g. text layout of a caption whose times are symbolic)
                return [(f(*args, **kws), cons)]
        except TypeError:
            pass
        try:
            stub = self.stubs.get(f)
        except TypeError:
            stub = None
        if stub is not None:
            r = stub(self, args, kws, cons)
            if r is not None:
                return r
        if isinstance(f, tuple) and f and f[0] == "boundmethod":
            _, obj, name = f
            if isinstance(obj, DigStr) and name == "ljust" and len(args) == 2 and args[1] == "0" and isinstance(args[0], int):
                if args[0] <= obj.width:
                    return [(obj, cons)]
                m = 10 ** (args[0] - obj.width)
                return [(DigStr(IntV(obj.v.t * m, obj.v.lo * m, obj.v.hi * m), args[0]), cons)]
            key = (type(obj).__name__, name)
            if key in self.stubs:
                return self.stubs[key](self, obj, args, kws, cons)
            raise Unsupported(f"method {name} on {type(obj).__name__}")
        symbolic = any(_sym(a) or isinstance(a, (DecStr, IntStr, DigStr)) for a in args) or \
            any(_sym(a) or isinstance(a, (DecStr, IntStr, DigStr)) for a in kws.values()) or \
            (f in (int, float, Fr) and len(args) == 1 and isinstance(args[0], SymFmt))
        deep = symbolic or any(_has_sym(a) for a in args) or any(_has_sym(a) for a in kws.values()) or \
            _has_sym(getattr(f, "__self__", None))
        target = self._inline_target(f)
        if deep and target is not None:
            return self._inline(target, f, args, kws, cons)
        if f is isinstance and len(args) == 2 and _sym(args[0]):
            import numbers
            kinds = (int, numbers.Number, numbers.Integral, numbers.Real) if isinstance(args[0], IntV) and not isinstance(args[0], RatV) \
                else (float, numbers.Number, numbers.Real)
            want = args[1] if isinstance(args[1], tuple) else (args[1],)
            return [(any(k in kinds for k in want), cons)]
        if not symbolic:
            if deep and f in (len, list, tuple, reversed, enumerate, zip, any, all, isinstance, hasattr, getattr, id, type, repr):
                pass
            try:
                return [(f(*args, **kws), cons)]
            except Unsupported:
                raise
            except Exception as e:
                return [(RaiseV(type(e), str(e)), cons)]
        if f in (int, float, Fr) and len(args) == 1 and isinstance(args[0], SymFmt):
            ps = [x for x in args[0].parts if x != ""]
            if len(ps) == 3 and isinstance(ps[0], (IntStr, DigStr)) and ps[1] == "." and isinstance(ps[2], DigStr) and f is not int:
                k = ps[2].width
                whole, frac = ps[0].v, ps[2].v
                pv = IntV(whole.t * 10 ** k + frac.t, whole.lo * 10 ** k + frac.lo, whole.hi * 10 ** k + frac.hi)
                return self.call(f, [DecStr(pv, k)], {}, cons)
            raise Unsupported("numeric conversion of a formatted string")
        if f is int and len(args) == 1:
            a = args[0]
            if isinstance(a, DigStr):
                return [(a.v, cons)]
            if isinstance(a, IntStr):
                return [(a.v, cons)]
            if isinstance(a, IntV):
                return [(a, cons)]
            if isinstance(a, RatV):
                return [(v, cons + c) for c, v in trunc_cases(ctx, a, "int")]
        if f is Fr and len(args) == 1 and isinstance(args[0], (DecStr, IntStr, IntV)):
            a = args[0]
            if isinstance(a, DecStr):
                return [(FracV(a.p.t, 10 ** a.k, Fr(a.p.lo, 10 ** a.k), Fr(a.p.hi, 10 ** a.k)), cons)]
            v = a.v if isinstance(a, IntStr) else a
            return [(FracV(v.t, 1, v.lo, v.hi), cons)]
        if f is float and len(args) == 1:
            a = args[0]
            if isinstance(a, DecStr):
                r = RatV(a.p.t, 10 ** a.k, Fr(a.p.lo, 10 ** a.k), Fr(a.p.hi, 10 ** a.k))
                return [(d, cons + c) for c, d in rounds(ctx, r)]
            if isinstance(a, (IntStr, DigStr)):
                a = a.v
            if isinstance(a, IntV):
                if max(abs(a.lo), abs(a.hi)) >= 2 ** 53:
                    raise Unsupported("float(int) beyond 2**53")
                return [(RatV(a.t, 1, a.lo, a.hi, True), cons)]
            if isinstance(a, RatV):
                return [(a, cons)]
        if f is math.floor and len(args) == 1 and isinstance(args[0], (RatV, IntV)):
            return [(v, cons + c) for c, v in trunc_cases(ctx, to_rat(args[0]), "floor")]
        if f is abs and len(args) == 1:
            a = to_rat(args[0])
            out = []
            if a.hi >= 0:
                out.append((RatV(a.P, a.Q, max(a.lo, 0), a.hi, a.is_double), cons + [a.P >= 0]))
            if a.lo < 0:
                out.append((RatV(-a.P, a.Q, max(-a.hi, 0), -a.lo, a.is_double), cons + [a.P < 0]))
            return out
        if f is round and len(args) == 1 and isinstance(args[0], (RatV, IntV)):
            # round half to even to an integer
            a = to_rat(args[0])
            q = ctx.fresh("q")
            d = 2 * (q * a.Q) - 2 * a.P  # 2*(q - x)*Q
            return [(IntV(q, math.floor(a.lo) - 1, math.ceil(a.hi) + 1),
                     cons + [d <= a.Q, d >= -a.Q, z3.Implies(z3.Or(d == a.Q, d == -a.Q), q % 2 == 0)])]
        if f is str and len(args) == 1 and isinstance(args[0], IntV):
            return [(IntStr(args[0]), cons)]
        if f is bool and len(args) == 1 and _sym(args[0]):
            r = to_rat(args[0])
            return [(r.P != 0, cons)]
        if f in (min, max) and len(args) == 2 and not kws:
            a, b = to_rat(args[0]), to_rat(args[1])
            le = a.P * b.Q <= b.P * a.Q
            first, second = (args[0], args[1]) if f is min else (args[1], args[0])
            return [(first, cons + [le]), (second, cons + [z3.Not(le)])]
        raise Unsupported(f"call {getattr(f, '__name__', f)} on symbolic arguments")

    # ---- inlining of the library's own python functions ---------------------
    def _inline_target(self, f):
        """(function object, bound self or None, kind) if f is python code of the library"""
        pre = self.INLINE_PREFIX
        if isinstance(f, types.MethodType):
            fn = f.__func__
            if isinstance(fn, types.FunctionType) and fn.__module__ and fn.__module__.startswith(pre):
                return fn, f.__self__, "method"
            return None
        if isinstance(f, types.FunctionType):
            if f.__module__ and f.__module__.startswith(pre):
                return f, None, "function"
            return None
        if isinstance(f, type) and f.__module__ and f.__module__.startswith(pre) and not issubclass(f, BaseException):
            init = f.__dict__.get("__init__")
            for k in f.__mro__:
                if "__init__" in k.__dict__:
                    init = k.__dict__["__init__"]
                    break
            if isinstance(init, types.FunctionType):
                return init, None, "class"
        return None

    def _inline(self, target, f, args, kws, cons):
        fn, bound, kind = target
        if self.depth > 12:
            raise Unsupported("inline depth")
        obj = None
        if kind == "class":
            obj = object.__new__(f)
            args = [obj] + list(args)
        elif bound is not None:
            args = [bound] + list(args)
        fd, globs, _ = function_ast(fn)
        a = fd.args
        if a.vararg or a.kwarg or a.kwonlyargs or a.posonlyargs:
            if a.vararg or a.kwarg:
                # *args / **kwargs are accepted only when nothing lands in them
                pass
        names = [x.arg for x in a.args]
        if len(args) > len(names) and not a.vararg:
            return [(RaiseV(TypeError, "too many positional arguments"), cons)]
        env = dict(zip(names, args))
        if a.vararg:
            env[a.vararg.arg] = tuple(args[len(names):])
        if a.kwarg:
            env[a.kwarg.arg] = {k: v for k, v in kws.items() if k not in names}
        for k, v in kws.items():
            if k in names:
                env[k] = v
            elif not a.kwarg:
                return [(RaiseV(TypeError, f"unexpected keyword {k}"), cons)]
        sub = Evaluator(self.ctx, globs, self.stubs, self.depth + 1)
        defaults = dict(zip(names[len(names) - len(a.defaults):], a.defaults))
        for n in names:
            if n not in env:
                if n in defaults:
                    (v, _), = sub.ev(defaults[n], {}, [])
                    env[n] = v
                else:
                    return [(RaiseV(TypeError, f"missing argument {n}"), cons)]
        out = []
        for o in sub.run_block(fd.body, env, cons):
            if o.kind == "raise":
                out.append((o.value if isinstance(o.value, RaiseV) else RaiseV(o.value), o.cons))
            elif kind == "class":
                out.append((o.env[names[0]] if names[0] in o.env else obj, o.cons))
            else:
                out.append((o.value if o.kind == "return" else None, o.cons))
        return out

    # ---- statements ------------------------------------------------------
    def run_block(self, stmts, env, cons):
        """returns list of Outcome(kind in {'fall','return','raise','break','continue'})"""
        states = [(env, cons)]
        finished = []
        for st in stmts:
            nxt = []
            for env, cons in states:
                for o in self.run_stmt(st, env, cons):
                    if o.kind == "fall":
                        nxt.append((o.env, o.cons))
                    else:
                        finished.append(o)
            states = nxt
            if not states:
                break
        return finished + [Outcome("fall", None, c, e) for e, c in states]

    def _fork(self, alts, env):
        """pair every alternative with its own copy of the environment (mutable objects are not shared
        between paths); a single alternative keeps the environment as it is"""
        if len(alts) <= 1:
            return [(v, c, env) for v, c in alts]
        out = []
        for v, c in alts:
            e2, v2 = copy.deepcopy((env, v))
            out.append((v2, c, e2))
        return out

    def run_stmt(self, st, env, cons):
        if isinstance(st, ast.Expr):
            if isinstance(st.value, ast.Constant):
                return [Outcome("fall", None, cons, env)]
            return [Outcome("raise", v, c, e) if isinstance(v, RaiseV) else Outcome("fall", None, c, e)
                    for v, c, e in self._fork(self.ev(st.value, env, cons), env)]
        if isinstance(st, ast.Assign):
            if len(st.targets) != 1:
                raise Unsupported("multi-target assign")
            out = []
            for v, c, e in self._fork(self.ev(st.value, env, cons), env):
                if isinstance(v, RaiseV):
                    out.append(Outcome("raise", v, c, e))
                    continue
                e2 = dict(e)
                r = self.assign(st.targets[0], v, e2, c)
                out.append(Outcome("raise", r, c, e2) if isinstance(r, RaiseV) else Outcome("fall", None, c, e2))
            return out
        if isinstance(st, ast.AugAssign):
            out = []
            load = copy.copy(st.target)
            load.ctx = ast.Load()
            alts = []
            for a, c in self.ev(load, env, cons):
                if isinstance(a, RaiseV):
                    alts.append((a, c))
                    continue
                for b, c2 in self.ev(st.value, env, c):
                    if isinstance(b, RaiseV):
                        alts.append((b, c2))
                    else:
                        alts.extend(self.binop(st.op, a, b, c2))
            for v, c, e in self._fork(alts, env):
                if isinstance(v, RaiseV):
                    out.append(Outcome("raise", v, c, e))
                    continue
                e2 = dict(e)
                self.assign(st.target, v, e2, c)
                out.append(Outcome("fall", None, c, e2))
            return out
        if isinstance(st, ast.If):
            out = []
            alts = self.branch(st.test, env, cons)
            for t, c, e in self._fork(alts, env):
                if isinstance(t, RaiseV):
                    out.append(Outcome("raise", t, c, e))
                else:
                    out.extend(self.run_block(st.body if t else st.orelse, e, c))
            return out
        if isinstance(st, ast.Return):
            if st.value is None:
                return [Outcome("return", None, cons, env)]
            return [Outcome("raise", v, c, e) if isinstance(v, RaiseV) else Outcome("return", v, c, e)
                    for v, c, e in self._fork(self.ev(st.value, env, cons), env)]
        if isinstance(st, ast.Raise):
            if st.exc is None:
                return [Outcome("raise", RaiseV(Exception, "re-raise"), cons, env)]
            cls_node = st.exc.func if isinstance(st.exc, ast.Call) else st.exc
            try:
                (cls, _), = self.ev(cls_node, env, cons)
            except Exception:
                cls = Exception
            return [Outcome("raise", RaiseV(cls, ast.unparse(cls_node)), cons, env)]
        if isinstance(st, ast.Pass):
            return [Outcome("fall", None, cons, env)]
        if isinstance(st, ast.Break):
            return [Outcome("break", None, cons, env)]
        if isinstance(st, ast.Continue):
            return [Outcome("continue", None, cons, env)]
        if isinstance(st, ast.For):
            if st.orelse:
                raise Unsupported("for-else")
            out = []
            for it, c, e in self._fork(self.ev(st.iter, env, cons), env):
                if isinstance(it, RaiseV):
                    out.append(Outcome("raise", it, c, e))
                    continue
                if _sym(it) or isinstance(it, (DecStr, IntStr, DigStr)):
                    raise Unsupported("iteration over a symbolic value")
                items = list(it)
                states = [(e, c)]
                for item in items:
                    nxt = []
                    for e1, c1 in states:
                        e2 = dict(e1)
                        self.assign(st.target, item, e2, c1)
                        for o in self.run_block(st.body, e2, c1):
                            if o.kind in ("fall", "continue"):
                                nxt.append((o.env, o.cons))
                            elif o.kind == "break":
                                out.append(Outcome("fall", None, o.cons, o.env))
                            else:
                                out.append(o)
                    states = nxt
                    if not states:
                        break
                out.extend(Outcome("fall", None, c1, e1) for e1, c1 in states)
            return out
        if isinstance(st, ast.While):
            out = []
            states = [(env, cons)]
            for _ in range(10000):
                nxt = []
                for e1, c1 in states:
                    for t, c2, e2 in self._fork(self.branch(st.test, e1, c1), e1):
                        if isinstance(t, RaiseV):
                            out.append(Outcome("raise", t, c2, e2))
                        elif not t:
                            out.append(Outcome("fall", None, c2, e2))
                        else:
                            for o in self.run_block(st.body, e2, c2):
                                if o.kind in ("fall", "continue"):
                                    nxt.append((o.env, o.cons))
                                elif o.kind == "break":
                                    out.append(Outcome("fall", None, o.cons, o.env))
                                else:
                                    out.append(o)
                states = nxt
                if not states:
                    return out
                if len(states) > 64:
                    raise Unsupported("while loop forks too much")
            raise Unsupported("while loop bound")
        if isinstance(st, ast.Try):
            if st.finalbody or st.orelse:
                raise Unsupported("try/finally/else")
            out = []
            for o in self.run_block(st.body, env, cons):
                if o.kind != "raise":
                    out.append(o)
                    continue
                et = o.value.exc_type if isinstance(o.value, RaiseV) else Exception
                handled = False
                for h in st.handlers:
                    if h.type is None:
                        match = True
                    else:
                        (ht, _), = self.ev(h.type, o.env, o.cons)
                        match = isinstance(et, type) and issubclass(et, ht)
                    if match:
                        e2 = dict(o.env)
                        if h.name:
                            e2[h.name] = et(o.value.text) if isinstance(et, type) else Exception()
                        out.extend(self.run_block(h.body, e2, o.cons))
                        handled = True
                        break
                if not handled:
                    out.append(o)
            return out
        raise Unsupported(f"statement {type(st).__name__} at line {st.lineno}")

    def assign(self, target, v, env, cons=None):
        if isinstance(target, ast.Name):
            env[target.id] = v
        elif isinstance(target, (ast.Tuple, ast.List)):
            vs = list(v)
            if len(vs) != len(target.elts):
                return RaiseV(ValueError, "unpack arity")
            for t, x in zip(target.elts, vs):
                self.assign(t, x, env, cons)
        elif isinstance(target, ast.Attribute):
            (obj, _), = self.ev(target.value, env, cons or [])
            setattr(obj, target.attr, v)
        elif isinstance(target, ast.Subscript):
            (obj, _), = self.ev(target.value, env, cons or [])
            (idx, _), = self.ev(target.slice, env, cons or [])
            obj[idx] = v
        else:
            raise Unsupported("assign target")
        return None

    def ev_ListComp(self, node, env, cons):
        if len(node.generators) != 1 or node.generators[0].is_async:
            raise Unsupported("comprehension shape")
        g = node.generators[0]
        (it, c0), = self.ev(g.iter, env, cons)
        states = [([], c0)]
        for item in list(it):
            nxt = []
            for acc, c in states:
                e2 = dict(env)
                self.assign(g.target, item, e2, c)
                conds = [(True, c)]
                for cond in g.ifs:
                    conds = [(t and t2, c3) for t, c2 in conds for t2, c3 in self.branch(cond, e2, c2)]
                for t, c2 in conds:
                    if not t:
                        nxt.append((acc, c2))
                    else:
                        for v, c3 in self.ev(node.elt, e2, c2):
                            nxt.append((acc + [v], c3))
            states = nxt
        return [(vals, c) for vals, c in states]

    def ev_Dict(self, node, env, cons):
        alts = [({}, cons)]
        for k, v in zip(node.keys, node.values):
            alts = [({**d, kk: vv}, c3) for d, c in alts for kk, c2 in self.ev(k, env, c) for vv, c3 in self.ev(v, env, c2)]
        return alts

    def ev_JoinedStr(self, node, env, cons):
        alts = [([], cons)]
        for part in node.values:
            if isinstance(part, ast.Constant):
                alts = [(ps + [part.value], c) for ps, c in alts]
            else:
                nxt = []
                for ps, c in alts:
                    for v, c2 in self.ev(part.value, env, c):
                        if isinstance(v, SymFmt):
                            nxt.append((ps + v.parts, c2))
                        elif _sym(v):
                            nxt.append((ps + [v], c2))
                        elif _has_sym(v, 1):
                            nxt.append((ps + ["<object with symbolic fields>"], c2))
                        else:
                            spec = ""
                            if part.format_spec is not None:
                                (spec, _), = self.ev(part.format_spec, env, c2)
                                if isinstance(spec, SymFmt):
                                    raise Unsupported("symbolic format spec")
                            nxt.append((ps + [format(v, spec)], c2))
                alts = nxt
        out = []
        for ps, c in alts:
            if any(not isinstance(p, str) for p in ps):
                out.append((SymFmt(ps), c))
            else:
                out.append(("".join(ps), c))
        return out


def function_ast(fn):
    """(FunctionDef node, globals, source hash) of a real function object"""
    import hashlib
    fn = inspect.unwrap(fn)
    if isinstance(fn, (staticmethod, classmethod)):
        fn = fn.__func__
    src = textwrap.dedent(inspect.getsource(fn))
    tree = ast.parse(src)
    fd = tree.body[0]
    assert isinstance(fd, ast.FunctionDef)
    return fd, fn.__globals__, hashlib.sha256(src.encode()).hexdigest()[:12]


def run_function(ctx, fn, env, stubs=None):
    """Evaluate fn's body with parameter environment env; returns list of Outcome."""
    fd, globs, _ = function_ast(fn)
    # defaults for parameters not supplied
    a = fd.args
    names = [x.arg for x in a.args]
    defaults = dict(zip(names[len(names) - len(a.defaults):], a.defaults))
    env = dict(env)
    ev = Evaluator(ctx, globs, stubs)
    for n in names:
        if n not in env:
            if n in defaults:
                (v, _), = ev.ev(defaults[n], {}, [])
                env[n] = v
            else:
                raise Unsupported(f"missing parameter {n}")
    outs = ev.run_block(fd.body, env, [])
    return [Outcome("return", None, o.cons, o.env) if o.kind == "fall" else o for o in outs]


def raise_name(o):
    """name of the exception class of a 'raise' outcome"""
    v = o.value
    if isinstance(v, RaiseV):
        return getattr(v.exc_type, "__name__", str(v.exc_type))
    return str(v)


def model_int(model, term):
    v = model.eval(term, model_completion=True)
    return v.as_long()
