"""Independent CEA-608 (line 21, channel 1) reference written from the standard's code tables - not from
pycaption's constants.  Used as the oracle of the SCC properties (C05, C06, C16, C17).

Words are given as SCC text: 4 hex digits = two bytes, each with odd parity.
"""

# --- parity -------------------------------------------------------------------------------------------------
def odd(b):
    """byte with bit 7 set so that the number of one bits is odd"""
    b &= 0x7F
    return b if bin(b).count("1") % 2 == 1 else b | 0x80


def word(b1, b2):
    return "%02x%02x" % (odd(b1), odd(b2))


def strip(w):
    return int(w[0:2], 16) & 0x7F, int(w[2:4], 16) & 0x7F


def parity_ok(w):
    return all(bin(int(w[i:i + 2], 16)).count("1") % 2 == 1 for i in (0, 2))


# --- character tables (CEA-608-E, tables 50-53) --------------------------------------------------------------
BASIC = {c: chr(c) for c in range(0x20, 0x80)}
BASIC.update({0x2A: "á", 0x5C: "é", 0x5E: "í", 0x5F: "ó", 0x60: "ú", 0x7B: "ç", 0x7C: "÷", 0x7D: "Ñ", 0x7E: "ñ", 0x7F: "█"})
SPECIAL = dict(zip(range(0x30, 0x40), ["®", "°", "½", "¿", "™", "¢", "£", "♪", "à", " ", "è", "â", "ê", "î", "ô", "û"]))
EXT_12 = dict(zip(range(0x20, 0x40), ["Á", "É", "Ó", "Ú", "Ü", "ü", "‘", "¡", "*", "'", "—", "©", "℠", "•", "“", "”",
                                     "À", "Â", "Ç", "È", "Ê", "Ë", "ë", "Î", "Ï", "ï", "Ô", "Ù", "ù", "Û", "«", "»"]))
EXT_13 = dict(zip(range(0x20, 0x40), ["Ã", "ã", "Í", "Ì", "ì", "Ò", "ò", "Õ", "õ", "{", "}", "\\", "^", "_", "¦", "~",
                                     "Ä", "ä", "Ö", "ö", "ß", "¥", "¤", "|", "Å", "å", "Ø", "ø", "┌", "┐", "└", "┘"]))

# --- control codes --------------------------------------------------------------------------------------------
RCL, BS, AOF, AON, DER, RU2, RU3, RU4, FON, RDC, TR, RTD, EDM, CR, ENM, EOC = [word(0x14, 0x20 + i) for i in range(16)]
TO1, TO2, TO3 = word(0x17, 0x21), word(0x17, 0x22), word(0x17, 0x23)

_PAC_ROWS = {0x11: (1, 2), 0x12: (3, 4), 0x15: (5, 6), 0x16: (7, 8), 0x17: (9, 10), 0x10: (11, None), 0x13: (12, 13), 0x14: (14, 15)}


def pac(row, indent=0, italics=False, underline=False, color=0):
    """preamble address code for `row` (1-15): indent in {0,4,...,28} (white), or a colour 0-6, or italics"""
    for b1, (r_lo, r_hi) in _PAC_ROWS.items():
        if row == r_lo or row == r_hi:
            base = 0x40 if row == r_lo else 0x60
            if italics:
                attr = 7
            elif indent:
                attr = 8 + indent // 4
            else:
                attr = color
            return word(b1, base | (attr << 1) | (1 if underline else 0))
    raise ValueError(row)


def decode_pac(w):
    """(row, column, italics, underline) or None if w is not a PAC"""
    b1, b2 = strip(w)
    if b1 not in _PAC_ROWS or not (0x40 <= b2 <= 0x7F):
        return None
    r_lo, r_hi = _PAC_ROWS[b1]
    row = r_lo if b2 < 0x60 else r_hi
    if row is None:
        return None
    attr = (b2 & 0x1E) >> 1
    col = (attr - 8) * 4 if attr >= 8 else 0
    return row, col, attr == 7, bool(b2 & 1)


def midrow(italics=True, color=0, underline=False):
    return word(0x11, 0x20 | ((7 if italics else color) << 1) | (1 if underline else 0))


def decode_midrow(w):
    b1, b2 = strip(w)
    if b1 == 0x11 and 0x20 <= b2 <= 0x2F:
        return ((b2 & 0xE) >> 1) == 7, bool(b2 & 1)
    return None


def chars(text):
    """SCC words for a string of basic characters (padded with a null to an even length)"""
    inv = {v: k for k, v in BASIC.items()}
    codes = [inv[c] for c in text]
    if len(codes) % 2:
        codes.append(0x00)
    return ["%02x%02x" % (odd(codes[i]), odd(codes[i + 1])) for i in range(0, len(codes), 2)]


def classify(w):
    b1, b2 = strip(w)
    if b1 == 0x14 and 0x20 <= b2 <= 0x2F:
        return "misc"
    if b1 == 0x17 and 0x21 <= b2 <= 0x23:
        return "tab"
    if decode_pac(w):
        return "pac"
    if b1 == 0x11 and 0x20 <= b2 <= 0x2F:
        return "midrow"
    if b1 == 0x11 and 0x30 <= b2 <= 0x3F:
        return "special"
    if b1 in (0x12, 0x13) and 0x20 <= b2 <= 0x3F:
        return "extended"
    if b1 >= 0x20:
        return "chars"
    return "other"


class PopOnDecoder:
    """two-memory pop-on decoder: feed(words) -> list of displayed screens; a screen is {row: [(col, char, italic)]}"""

    def __init__(self):
        self.mem = {}
        self.row, self.col = 15, 0
        self.italic = False
        self.last = None
        self.screens = []

    def _put(self, ch):
        self.mem.setdefault(self.row, {})[self.col] = (ch, self.italic)
        if self.col < 31:
            self.col += 1

    def _back(self):
        if self.col > 0:
            self.col -= 1
            self.mem.get(self.row, {}).pop(self.col, None)

    def feed(self, words):
        for w in words:
            kind = classify(w)
            if kind in ("misc", "tab", "pac", "midrow", "special", "extended"):
                if w == self.last:  # second copy of a doubled control pair
                    self.last = None
                    continue
                self.last = w
            else:
                self.last = None
            b1, b2 = strip(w)
            if kind == "pac":
                self.row, self.col, self.italic, _ = decode_pac(w)
            elif kind == "tab":
                self.col = min(31, self.col + (b2 - 0x20))
            elif kind == "midrow":
                it, _ = decode_midrow(w)
                self._put(" ")  # a mid-row code occupies one cell, shown as a space
                self.italic = it
            elif kind == "special":
                self._put(SPECIAL[b2])
            elif kind == "extended":
                self._back()
                self._put((EXT_12 if b1 == 0x12 else EXT_13)[b2])
            elif kind == "chars":
                for b in (b1, b2):
                    if b >= 0x20:
                        self._put(BASIC[b])
            elif kind == "misc":
                if w == BS:
                    self._back()
                elif w == ENM:
                    self.mem = {}
                elif w == EOC:
                    self.screens.append(self.mem)
                    self.mem = {}
                elif w == RCL:
                    pass
        return self.screens


def screen_rows(screen):
    """[(row, first column, text, [italic flag per character])] for the non-empty rows of a screen"""
    out = []
    for row in sorted(screen):
        cells = screen[row]
        cols = sorted(cells)
        if not cols or all(cells[c][0] == " " for c in cols):
            continue
        first, last = cols[0], cols[-1]
        text = ""
        flags = []
        for c in range(first, last + 1):
            ch, it = cells.get(c, (" ", False))
            text += ch
            flags.append(it)
        out.append((row, first, text, flags))
    return out


def captions_of(screen):
    """rows on consecutive screen rows are the lines of one caption; returns [[(row, col, text, flags), ...], ...]"""
    caps = []
    for r in screen_rows(screen):
        if caps and caps[-1][-1][0] + 1 == r[0]:
            caps[-1].append(r)
        else:
            caps.append([r])
    return caps


def position(row, col):
    """(x %, y %) of a cell mapped linearly into the safe area (10-90 % across 32 columns, 5-95 % across 15 rows)"""
    return 10 + 80 * col / 32.0, 5 + 90 * (row - 1) / 15.0
