"""E4 - loop-free dunder methods (__eq__, __hash__, __bool__) of the geometry value classes,
translated from their AST (read from /repo at run time) to z3 terms over unbounded sorts:
numbers are Reals (an ordered field without NaN), enum members are members of a finite sort,
`hash` of a leaf is an uninterpreted function, `hash` of an int expression is an uninterpreted
function of that expression, None is decided structurally (each query fixes which optional
components are None).

A symbolic object is a `Rec(cls, fields)`; evaluating `a == b` on two records evaluates the class's
own `__eq__` AST recursively.  Unsupported syntax raises Unsupported (harness error, never a pass).
"""
from __future__ import annotations

import ast
import enum
import inspect
import textwrap

import z3


class Unsupported(Exception):
    pass


class Rec:
    def __init__(self, cls, fields):
        self.cls = cls
        self.fields = fields  # name -> Rec | z3 term | None | python constant

    def leaves(self, prefix=""):
        out = []
        for k, v in self.fields.items():
            if isinstance(v, Rec):
                out += v.leaves(prefix + k + ".")
            else:
                out.append((prefix + k, v))
        return out


class Enc:
    def __init__(self):
        self.Hreal = z3.Function("hash_real", z3.RealSort(), z3.IntSort())
        self.Hint = z3.Function("hash_int", z3.IntSort(), z3.IntSort())
        self.Hnone = z3.Int("hash_None")
        self.Hstr = z3.Function("hash_str", z3.StringSort(), z3.IntSort())
        self.enum_sorts = {}
        self.Henum = {}
        self._ast_cache = {}

    def enum_sort(self, ecls):
        if ecls not in self.enum_sorts:
            sort, consts = z3.EnumSort(ecls.__name__, [m.name for m in ecls])
            self.enum_sorts[ecls] = (sort, dict(zip([m.name for m in ecls], consts)))
            self.Henum[ecls] = z3.Function("hash_" + ecls.__name__, sort, z3.IntSort())
        return self.enum_sorts[ecls]

    def method_ast(self, cls, name):
        key = (cls, name)
        if key not in self._ast_cache:
            fn = None
            for k in cls.__mro__:
                if name in k.__dict__:
                    fn = k.__dict__[name]
                    break
            if fn is None or not inspect.isfunction(fn):
                self._ast_cache[key] = None
            else:
                src = textwrap.dedent(inspect.getsource(fn))
                fd = ast.parse(src).body[0]
                self._ast_cache[key] = (fd, fn.__globals__)
        return self._ast_cache[key]

    # ------------------------------------------------------------------
    def truthy(self, v):
        """python truthiness of a value as a z3 Bool / python bool"""
        if v is None:
            return False
        if isinstance(v, bool):
            return v
        if isinstance(v, z3.BoolRef):
            return v
        if isinstance(v, Rec):
            m = self.method_ast(v.cls, "__bool__")
            if m is None:
                return True
            return self.truthy(self.run(m, {"self": v}))
        if isinstance(v, z3.ArithRef):
            return v != 0
        if isinstance(v, z3.SeqRef):
            return z3.Length(v) > 0
        if isinstance(v, z3.ExprRef):  # enum member
            return True
        if isinstance(v, (list, tuple)):
            return len(v) > 0
        return bool(v)

    def eq(self, a, b):
        """a == b as z3 Bool / python bool"""
        if isinstance(a, Rec):
            m = self.method_ast(a.cls, "__eq__")
            if m is None:
                return a is b
            return self.truthy(self.run(m, {"self": a, "other": b}))
        if isinstance(b, Rec):
            return self.eq(b, a)
        if a is None or b is None:
            return a is None and b is None
        if isinstance(a, (list, tuple)) or isinstance(b, (list, tuple)):
            if not (isinstance(a, (list, tuple)) and isinstance(b, (list, tuple))) or len(a) != len(b):
                return False
            return self._and(*[self.eq(x, y) for x, y in zip(a, b)])
        if isinstance(a, z3.ExprRef) or isinstance(b, z3.ExprRef):
            if not (isinstance(a, z3.ExprRef) and isinstance(b, z3.ExprRef)):
                raise Unsupported("comparison of symbolic with concrete")
            if a.sort() != b.sort():
                return False
            return a == b
        return a == b

    def hash(self, v):
        if isinstance(v, Rec):
            m = self.method_ast(v.cls, "__hash__")
            if m is None:
                raise Unsupported("no __hash__")
            return self.run(m, {"self": v})
        if v is None:
            return self.Hnone
        if isinstance(v, z3.ArithRef):
            return self.Hint(v) if v.is_int() else self.Hreal(v)
        if isinstance(v, z3.SeqRef):
            return self.Hstr(v)
        if isinstance(v, z3.ExprRef):
            for ecls, (sort, _) in self.enum_sorts.items():
                if v.sort() == sort:
                    return self.Henum[ecls](v)
        raise Unsupported(f"hash of {v!r}")

    @staticmethod
    def _and(*xs):
        xs = [x for x in xs]
        if any(x is False for x in xs):
            return False
        xs = [x for x in xs if x is not True]
        if not xs:
            return True
        return z3.And(*xs) if len(xs) > 1 else xs[0]

    @staticmethod
    def _or(*xs):
        if any(x is True for x in xs):
            return True
        xs = [x for x in xs if x is not False]
        if not xs:
            return False
        return z3.Or(*xs) if len(xs) > 1 else xs[0]

    @staticmethod
    def _not(x):
        if isinstance(x, bool):
            return not x
        return z3.Not(x)

    # ------------------------------------------------------------------
    def run(self, m, env):
        fd, globs = m
        body = [s for s in fd.body if not (isinstance(s, ast.Expr) and isinstance(s.value, ast.Constant))]
        if len(body) != 1 or not isinstance(body[0], ast.Return):
            raise Unsupported(f"{fd.name}: body is not a single return")
        return self.ev(body[0].value, env, globs)

    def ev(self, n, env, globs):
        if isinstance(n, ast.Constant):
            return n.value
        if isinstance(n, ast.Name):
            if n.id in env:
                return env[n.id]
            if n.id in globs:
                return globs[n.id]
            import builtins
            return getattr(builtins, n.id)
        if isinstance(n, ast.Attribute):
            v = self.ev(n.value, env, globs)
            if isinstance(v, Rec):
                if n.attr not in v.fields:
                    raise Unsupported(f"attribute {n.attr} of {v.cls.__name__}")
                return v.fields[n.attr]
            return getattr(v, n.attr)
        if isinstance(n, ast.BoolOp):
            # `a and b` returns an operand; only truthiness is used by our callers, but operands may be
            # records - build the value lazily as (truthiness) when all later uses are boolean.
            is_and = isinstance(n.op, ast.And)
            ts = []
            for x in n.values:
                t = self.truthy(self.ev(x, env, globs))
                if is_and and t is False:
                    return False  # short circuit: later operands are not evaluated
                if not is_and and t is True:
                    return True
                ts.append(t)
            return self._and(*ts) if is_and else self._or(*ts)
        if isinstance(n, ast.UnaryOp) and isinstance(n.op, ast.Not):
            return self._not(self.truthy(self.ev(n.operand, env, globs)))
        if isinstance(n, ast.IfExp):
            t = self.truthy(self.ev(n.test, env, globs))
            a = self.ev(n.body, env, globs)
            b = self.ev(n.orelse, env, globs)
            if isinstance(t, bool):
                return a if t else b
            if isinstance(a, bool) and isinstance(b, bool):
                return self._or(self._and(t, a), self._and(self._not(t), b))
            return z3.If(t, a, b)
        if isinstance(n, ast.Compare):
            if len(n.ops) != 1:
                raise Unsupported("chained compare")
            a = self.ev(n.left, env, globs)
            b = self.ev(n.comparators[0], env, globs)
            op = n.ops[0]
            if isinstance(op, ast.Eq):
                return self.eq(a, b)
            if isinstance(op, ast.NotEq):
                return self._not(self.eq(a, b))
            if isinstance(op, ast.Is):
                return (a is None) == (b is None) if (a is None or b is None) else a is b
            if isinstance(op, ast.IsNot):
                return not ((a is None) == (b is None)) if (a is None or b is None) else a is not b
            if isinstance(op, ast.In):
                if isinstance(b, type) and issubclass(b, enum.Enum) and isinstance(a, z3.ExprRef):
                    return True  # a member of the enum's own sort
                raise Unsupported("in")
            raise Unsupported("compare op")
        if isinstance(n, ast.Call) and isinstance(n.func, ast.Attribute):
            recv = self.ev(n.func.value, env, globs)
            if isinstance(recv, Rec):
                # a method of the same value classes, called on a symbolic record: evaluate its AST (single return)
                m = self.method_ast(recv.cls, n.func.attr)
                if m is None:
                    raise Unsupported(f"method {n.func.attr} of {recv.cls.__name__}")
                fd = m[0]
                params = [a.arg for a in fd.args.args]
                args = [self.ev(a, env, globs) for a in n.args]
                if len(params) != 1 + len(args) or n.keywords:
                    raise Unsupported("method call with keyword / default arguments")
                return self.run(m, dict(zip(params, [recv] + args)))
        if isinstance(n, ast.Call):
            f = self.ev(n.func, env, globs)
            args = [self.ev(a, env, globs) for a in n.args]
            if f is isinstance and len(args) == 2 and isinstance(args[1], type):
                a0 = args[0]
                if isinstance(a0, Rec):
                    return issubclass(a0.cls, args[1])
                if a0 is None:
                    return False
                raise Unsupported("isinstance of a symbolic leaf")
            if f is type and len(args) == 1:
                return args[0].cls if isinstance(args[0], Rec) else type(args[0])
            if f is hash and len(args) == 1:
                return self.hash(args[0])
            if f is any and len(args) == 1:
                return self._or(*[self.truthy(x) for x in args[0]])
            if f is all and len(args) == 1:
                return self._and(*[self.truthy(x) for x in args[0]])
            raise Unsupported(f"call {getattr(f, '__name__', f)}")
        if isinstance(n, (ast.List, ast.Tuple)):
            return [self.ev(x, env, globs) for x in n.elts]
        if isinstance(n, ast.BinOp):
            a = self.ev(n.left, env, globs)
            b = self.ev(n.right, env, globs)
            if isinstance(n.op, ast.Add):
                return a + b
            if isinstance(n.op, ast.Mult):
                return a * b
            if isinstance(n.op, ast.Sub):
                return a - b
            raise Unsupported("binop")
        raise Unsupported(f"expression {type(n).__name__}")
