"""CrossHair plugin body (E1, plugin 1): keep ``format(symbolic_int, spec)`` symbolic.

CrossHair 0.0.110 realises a symbolic int as soon as it is formatted, which makes
every timestamp writer unprovable.  This module re-registers the ``format`` patch
so that the specs '', 'd', 'N', 'Nd', '0N', '0Nd' (N one digit) on a symbolic int
build a symbolic string from the digits ``(x // 10**i) % 10`` (forking only on the
digit count) and ``.Ns`` on a symbolic str is a slice.  Everything else falls
through to CrossHair's own implementation.

It is a model of CPython's formatter and therefore part of the trusted base; it is
self-tested against the real ``format`` on every run (``selftest()``).
"""
import re

from crosshair import core
from crosshair.libimpl import builtinslib as bl
from crosshair.tracers import NoTracing

_orig = bl._format
_SPEC = re.compile(r"^(0?)(\d?)d?$")
_SSPEC = re.compile(r"^\.(\d+)s$")


def digits_of(x, zero, width):
    """Code points of format(x, spec) for x >= 0; pure python, works on int and SymbolicInt."""
    n = 1
    lim = 10
    while x >= lim:  # forks once per extra digit
        n += 1
        lim *= 10
    cps = []
    for i in range(n - 1, -1, -1):
        cps.append(48 + (x // (10 ** i)) % 10)
    pad = max(0, width - n)
    return [48 if zero else 32] * pad + cps


def _sym_int_format(x, zero, width):
    if x < 0:
        return _orig(x, ("0" if zero else "") + (str(width) if width else "") + "d")
    cps = digits_of(x, zero, width)
    with NoTracing():
        return bl.LazyIntSymbolicStr(cps)


def _fmt(obj, format_spec=""):
    with NoTracing():
        spec = format_spec if isinstance(format_spec, str) else None
        m = None
        ms = None
        if spec is not None:
            if isinstance(obj, bl.SymbolicInt):
                m = _SPEC.match(spec)
            elif isinstance(obj, bl.AnySymbolicStr):
                ms = _SSPEC.match(spec)
    if ms:
        return obj[: int(ms.group(1))]
    if m:
        return _sym_int_format(obj, m.group(1) == "0", int(m.group(2) or 0))
    return _orig(obj, format_spec)


def install():
    core._PATCH_REGISTRATIONS[format] = _fmt


def selftest():
    """digits_of must agree with CPython's format on concrete values."""
    n = 0
    vals = [0, 1, 5, 9, 10, 11, 59, 60, 99, 100, 101, 999, 1000, 1001, 9999, 10000,
            12345, 99999, 100000, 123456, 999999, 1000000, 86399999, 2 ** 31, 10 ** 12 + 7]
    for v in vals:
        for zero in (False, True):
            for width in range(0, 7):
                spec = ("0" if zero else "") + (str(width) if width else "")
                for suffix in ("", "d"):
                    got = "".join(chr(c) for c in digits_of(v, zero, width))
                    want = format(v, spec + suffix)
                    if got != want:
                        raise AssertionError(f"chfmt selftest: {v!r} {spec + suffix!r}: {got!r} != {want!r}")
                    n += 1
    return n
