"""E3 - compiled regular expressions (read from the imported module objects or captured at run time)
translated with the stdlib regex parser into z3 regex terms, for language inclusion / equivalence
queries against reference grammars.  ASCII semantics for \\d \\s \\w (stated bound); capture groups are
ignored (languages only); anchors ^ and $ are accepted only at the ends ($ also admits one trailing
newline in CPython - reported separately)."""
import warnings

import z3

with warnings.catch_warnings():
    warnings.simplefilter("ignore")
    import re._parser as sp
    import re._constants as sc

ALL = z3.AllChar(z3.ReSort(z3.StringSort()))
EPS = z3.Re("")


class Unsupported(Exception):
    pass


def _cat(av):
    if av == sc.CATEGORY_DIGIT:
        return z3.Range("0", "9")
    if av == sc.CATEGORY_SPACE:
        return z3.Union(*[z3.Re(c) for c in " \t\n\r\f\v"])
    if av == sc.CATEGORY_NOT_SPACE:
        return z3.Intersect(ALL, z3.Complement(_cat(sc.CATEGORY_SPACE)))
    if av == sc.CATEGORY_WORD:
        return z3.Union(z3.Range("0", "9"), z3.Range("a", "z"), z3.Range("A", "Z"), z3.Re("_"))
    raise Unsupported(av)


def _cls(items):
    alts = []
    neg = False
    for op, av in items:
        if op == sc.NEGATE:
            neg = True
        elif op == sc.LITERAL:
            alts.append(z3.Re(chr(av)))
        elif op == sc.RANGE:
            alts.append(z3.Range(chr(av[0]), chr(av[1])))
        elif op == sc.CATEGORY:
            alts.append(_cat(av))
        else:
            raise Unsupported(op)
    r = z3.Union(*alts) if len(alts) > 1 else alts[0]
    return z3.Intersect(ALL, z3.Complement(r)) if neg else r


def tr(seq):
    parts = []
    for op, av in seq:
        if op == sc.LITERAL:
            parts.append(z3.Re(chr(av)))
        elif op == sc.ANY:
            parts.append(z3.Intersect(ALL, z3.Complement(z3.Re("\n"))))
        elif op == sc.IN:
            parts.append(_cls(av))
        elif op == sc.CATEGORY:
            parts.append(_cat(av))
        elif op in (sc.MAX_REPEAT, sc.MIN_REPEAT):
            lo, hi, sub = av
            r = tr(sub)
            if hi == sc.MAXREPEAT:
                parts.append(z3.Concat(*([r] * lo + [z3.Star(r)])) if lo else z3.Star(r))
            else:
                parts.append(z3.Loop(r, lo, hi))
        elif op == sc.SUBPATTERN:
            parts.append(tr(av[3]))
        elif op == sc.BRANCH:
            parts.append(z3.Union(*[tr(b) for b in av[1]]))
        elif op == sc.AT:
            if av in (sc.AT_BEGINNING, sc.AT_END, sc.AT_BEGINNING_STRING, sc.AT_END_STRING):
                continue
            raise Unsupported(av)
        else:
            raise Unsupported(op)
    if not parts:
        return EPS
    return z3.Concat(*parts) if len(parts) > 1 else parts[0]


def language(pattern: str):
    """language of a fully anchored pattern ^...$"""
    return tr(sp.parse(pattern))


def capture_compiled(module, call):
    """run call() while recording the patterns passed to module.re.compile"""
    import re
    pats = []
    orig = re.compile

    class _Re:
        def __getattr__(self, k):
            return getattr(re, k)

        @staticmethod
        def compile(p, *a, **k):
            pats.append(p)
            return orig(p, *a, **k)
    old = module.re
    module.re = _Re()
    try:
        call()
    finally:
        module.re = old
    return pats
