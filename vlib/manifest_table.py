def fill(claim, NA):
    claim(
        "C02",
        "Bounded symbolic check (CrossHair/z3 over the real formatter and writer code): for every integer instant below 24 h the written timestamp fields denote the instant truncated to milliseconds with correct carries and digit-only fixed-width fields; solver verdict over all values in the bound, not sampling.",
        "Trusted: CrossHair 0.0.110 + z3, the symbolic int.__format__ model in vlib/chfmt.py (self-tested each run), CPython's timedelta normalisation as modelled by CrossHair. bs4/lxml serialisation of attribute values is outside (contract).",
        "CrossHair symbolic execution + z3; exact-LIA encoding of float kernels",
    )
