def fill(claim, NA):
    claim(
        "C02",
        "Bounded symbolic check (CrossHair/z3 over the real formatter and writer code): for every integer instant below 24 h the written timestamp fields denote the instant truncated to milliseconds with correct carries and digit-only fixed-width fields; solver verdict over all values in the bound, not sampling.",
        "Trusted: CrossHair 0.0.110 + z3, the symbolic int.__format__ model in vlib/chfmt.py (self-tested each run), CPython's timedelta normalisation as modelled by CrossHair. bs4/lxml serialisation of attribute values is outside (contract).",
        "CrossHair symbolic execution + z3; exact-LIA encoding of float kernels",
    )
    claim(
        "C01",
        "Bounded symbolic check of the real readers: for every stamp of each lexical shape (all digit values; 1-4 hour digits, 0-8 fraction digits, WebVTT short form, symbolic time shift) the public SRT/WebVTT read() and the TTML/SAMI time kernels return exactly the denoted microsecond, one caption per non-empty cue in order; float kernels (MicroDVD frames at default and declared rates, TTML offset times and frame fields) are decided exactly by an IEEE-754-in-LIA encoding regenerated from the function ASTs.",
        "Trusted: CrossHair+z3, the regex-matcher repair (vlib/chre.py, self-tested against CPython re), AST->LIA translator (validated on concrete inputs every run). One stamp symbolic per contract; bs4/lxml tree building and float(str) parsing are contracts. Bounds: digit counts listed per obligation; MicroDVD frames <= 9e7; TTML counts < 1e6 (1e9 thorough).",
        "CrossHair symbolic execution + z3; AST->QF_LIA exact binary64 encoding (z3)",
    )
    claim(
        "C03",
        "Bounded symbolic check of every writer's text path: any line of up to 3 arbitrary printable code points (and '&'+3) is encoded by the real code and must decode back, under an independent reference decoder of the target format, to the same text with no cue terminator or stray markup; all node sequences of 5 (thorough 7) TEXT/EMPTY/BREAK nodes must come out as exactly one cue with the expected lines under the reference block parser.",
        "Trusted: CrossHair+z3 string model; reference decoders/parsers in harness/ref_text.py, harness/C03_struct.py; bs4's verbatim emission of p.string (contract). Bounds: |line| <= 3 (+'&' prefix 4), <= 7 nodes, one text node per line.",
        "CrossHair symbolic execution + z3 over symbolic strings and node-kind selectors",
    )
    claim(
        "C04",
        "Bounded symbolic check of the readers' text paths: for every cue text of the listed shapes (3 free code points; '&'+3+';'; '<'+1-2+'>' with and without annotation) the public WebVTT/SRT/MicroDVD read() yields the reference display text; DFXP/SAMI text leaves (incl. source line wraps) keep all words; SAMI stage-1 output for every listed reference followed by arbitrary data decodes exactly once under the stage-2 contract.",
        "Trusted: CrossHair+z3 incl. repaired regex matcher; reference display/decoder functions in the harness; html.parser/lxml tokenisation as contracts. Bounds: text <= 3 free code points per shape; 8 named + all decimal 32..999 + 6 hex references.",
        "CrossHair symbolic execution + z3 over symbolic strings",
    )
    claim(
        "C15",
        "Bounded symbolic check of the SCC line-length scan: the real SCCReader.read is run on an injected stash of 2-4 captions whose start sharing and line-length classes (1, 31, 32, 33, 40) are symbolic choices, plus real decoding of one row of 28-38 characters in all three modes; it must raise the length error naming every line over 32 exactly when one exists.",
        "Trusted: CrossHair+z3 (finite structure space, path search certified complete). Stash injection instead of decoding for the multi-caption obligations; length classes stand for all lengths (the scan compares with 32 only).",
        "CrossHair symbolic execution + z3 on injected reader state",
    )
    claim(
        "C19",
        "Bounded symbolic check of merge_concurrent_captions/merge/adjust_caption_timing over unconstrained integer instants: 3-4 (thorough 6) captions in 1-2 languages, every pattern of equal/unequal timespans is a solver-explored path; output runs, node identity, break placement, idempotence, survivors and affine retiming are asserted.",
        "Trusted: CrossHair+z3. Integer skews 1..4 only (float skews realise in CrossHair and are not claimed).",
        "CrossHair symbolic execution + z3 over unbounded integers",
    )
    claim(
        "C20",
        "Bounded symbolic check of detect_format and all six detect() methods on every string of length <= 3 over the statement's alphabet, on format markers combined with free characters, on every truncation of a valid document of each format, and on pycaption's own writer output: never raises, result equals the first accepting reader in the documented order.",
        "Trusted: CrossHair+z3 string model incl. repaired regex matcher. Bounds: |s| <= 3 (5 thorough), 10 markers, truncation index <= 80; SAMI/DFXP own output produced concretely at import (bs4/cssutils do not run under tracing).",
        "CrossHair symbolic execution + z3 over symbolic strings",
    )
    claim(
        "C18",
        "Equality, hashing and truthiness of all six geometry classes are translated from their ASTs to EUF+LRA and the laws (eq iff all geometric components equal, eq implies equal hash, symmetry) are discharged by z3 for every None-pattern with values over the reals; the regex compiled by Size.from_string is proved equivalent to the reference size grammar for all strings up to length 12 (20 thorough); parsing accept/reject, printing/re-parsing, padding shorthand order and non-mutation are checked by bounded symbolic execution.",
        "Trusted: z3; AST->EUF translator (refuses unsupported syntax); regex->z3 translation with ASCII categories; CrossHair for the E1 part where magnitudes are finite choices (no symbolic floats).",
        "AST->EUF/LRA and regex->SMT queries (z3) + CrossHair symbolic execution",
    )
    claim(
        "C13",
        "The ASTs of Size.as_percentage_of and Layout.fit_to_screen (with the geometry constructors and operators inlined) are encoded as exact IEEE-754-in-LIA queries: for every value p/10^k (p < 10^6, k <= 3) in px/em/pt/c against 12 video dimensions the result is a percentage within 2^-30 of the exact one; for every double origin in the safe area and every double extent in [2^-7,128) or absent the fitted region stays inside 90%/95%, a missing extent reaches the edge and a fitting one is unchanged. Error paths (RelativizationError exactly when a needed dimension is missing), WebVTT never writing absolute units, and the printed two-decimal sums are checked by bounded symbolic execution.",
        "Trusted: z3; AST->LIA translator incl. inlining (validated on concrete inputs every run); concrete dimension list; CrossHair for finite-choice obligations.",
        "AST->QF_LIA exact binary64 encoding (z3) + CrossHair symbolic execution",
    )
    claim(
        "C09",
        "Bounded symbolic execution of write() of all eight writers over structure selectors (layouts at every level incl. absolute ones without a video size = refusal path, caption and document styles, identical timespans = merge path, balanced and unclosed italics, two languages): a deep structural snapshot of the caption set is identical before and after, and the same writer twice / a fresh writer / a writer that wrote another set before return identical documents.",
        "Trusted: CrossHair+z3 (finite selector space, completeness certified); contract stub of bs4 for the DFXP family (counterexamples replayed on the real bs4); deterministic stand-in for hash() inside pycaption.geometry. Other-process hash seeds are argued (no set iteration in writers), not executed.",
        "CrossHair symbolic execution + z3 over structure selectors",
    )
    claim(
        "C10",
        "Bounded symbolic execution: results of any two of the pure-Python readers are isolated under five kinds of edit (and later reads unaffected), a used reader object reads like a fresh one (incl. SCC), and the SAMI language order equals the order of first appearance for every iteration order of any set the parser creates (set order made a solver-chosen permutation, which is what a different hash seed amounts to).",
        "Trusted: CrossHair+z3; NondetSet as the model of hash-seed dependence; SAMI tokenizer/bs4/cssutils behind factory hooks; counterexamples replayed on real documents under real PYTHONHASHSEED values.",
        "CrossHair symbolic execution + z3; set iteration order as solver-chosen permutation",
    )
    claim(
        "C14",
        "Bounded symbolic execution of the SAMI writer's sync placement for 2-3 languages with arbitrary instants (every interleaving and coincidence of cue times across languages is a solver-explored path): syncs non-decreasing, every cue once, in the sync of its start and under its own language; DFXP div-to-language resolution with all xml:lang fallback patterns; language options of the WebVTT/DFXP/legacy writers; SAMI paragraph language lookup.",
        "Trusted: CrossHair+z3; contract stub of bs4 (find/find_all/insert_before/insert_after semantics) and parser factory hooks; bounds 2+1 / 1+1+1 cues quick, 2+2 thorough.",
        "CrossHair symbolic execution + z3 over order relations between instants",
    )
    claim(
        "C11",
        "Bounded symbolic execution of span writing in the DFXP, SAMI and WebVTT writers over every flat balanced node sequence (4 nodes quick, 5 and 7 thorough, per style, plus adjacent spans of two styles) and of span reading in the DFXP/SAMI converters over all 3-child paragraph trees: a reference scanner of the emitted markup gives every visible character the same italic/bold/underline flag as the input, the markup is balanced and properly nested, readers return balanced style nodes.",
        "Trusted: CrossHair+z3 (finite structure space, completeness certified); reference markup scanner; element trees and bs4 emission as contracts.",
        "CrossHair symbolic execution + z3 over node-kind sequences and tree shapes",
    )
    claim(
        "C07",
        "Bounded symbolic execution of DFXP document assembly on a recording stub of bs4: every style value of 1-2 characters over the XML-relevant alphabet yields well-formed hand-assembled span markup and well-formed attribute content in styling/p elements (DFXP and legacy writers); for all layout combinations over the four levels, positioned spans, 1-2 languages, identical timespans and force=, region/style references resolve to exactly one definition, ids are unique, every region is referenced, one div per written language and one p per caption (run).",
        "Trusted: CrossHair+z3; bs4's verbatim emission with formatter=None and lxml's parse of the constant skeleton (contracts; counterexamples replayed through the real writer + lxml.etree). Ids are not symbolic.",
        "CrossHair symbolic execution + z3 over attribute strings and layout selectors",
    )
    claim(
        "C12",
        "Bounded symbolic execution of the DFXP positioning round trip (real DFXPWriter and RegionCreator on a recording stub of bs4, serialised verbatim, then the real DFXPReader with its layout-aware parser on that text): for all combinations of language/caption/positioned-span layouts out of a pool with equal-valued duplicates and the default region, every text keeps its effective layout; WebVTT cue settings equal the reference arithmetic (position = x + left padding, line = y + top padding, size = width - paddings, align omitted when centred) over a pool of two-decimal values, cue splitting by layout and verbatim pass-through of settings read from WebVTT.",
        "Trusted: CrossHair+z3 (finite pools; no symbolic floats), bs4 serialisation contract on the writer side, deterministic stand-in for hash() in geometry. The arithmetic over all values is C13.",
        "CrossHair symbolic execution + z3 over layout selectors",
    )
    claim(
        "C08",
        "Induction over the chain instead of enumerating chains: for each of the five formats a hop lemma (public write then public read for SRT/WebVTT/MicroDVD with a symbolic instant or symbolic text; writer kernel composed with reader kernel through the serialisation contract for DFXP and SAMI) shows read(write(cue)) = (R_f(start), R_f(end), N(text)); z3 decides idempotence, absorption and monotonicity of the resolution maps over [0, 24 h), which yields coarsest-resolution preservation and no drift on a second pass for chains of any length.",
        "Trusted: CrossHair+z3; E2-proved integer contracts for the MicroDVD float kernels; bs4/lxml serialisation contract for DFXP/SAMI; one symbolic instant per contract; degenerate cues (frame 0 only, zero length after truncation, collapsing pairs) excluded.",
        "CrossHair symbolic execution of write-then-read + z3 LIA algebra (induction over chain length)",
    )
    claim(
        "C05",
        "Bounded symbolic execution of the real SCC reader (public read()) over every preamble address code of the standard, every basic/special/extended character code, tab offsets, single and doubled control codes, and short pop-on programs (two rows with any rows/indents/italics, mid-row italics on/off, backspace), compared with an independent CEA-608 pop-on reference decoder: characters, line/caption grouping by row adjacency, position of the first row, italic flag per character; plus every 4-node (thorough 5) instruction list through the italics normalisation passes.",
        "Trusted: CrossHair+z3 (table indices and structure choices, completeness certified); vlib/ref608.py (written from the standard, calibrated against pycaption's tables once); well-formedness preconditions listed in the evidence. One known finding (0x7F solid block dropped) is excluded and re-found on every run.",
        "CrossHair symbolic execution + z3 over code-table indices and program shapes, reference-decoder oracle",
    )
    claim(
        "C06",
        "The AST of _SccTimeTranslator._translate_time is encoded as exact IEEE-754-in-LIA queries: for every timecode (HH <= 99, MM/SS <= 59, frame field up to 300 = line timecode plus words sent), drop and non-drop, without offset and with offsets of 1 s and 3600 s (more, and symbolic 0..600 s, in thorough) the result is within 2^-10 microseconds of the exact rational instant floored at zero. The pop-on schedule (start at the EOC word, end at the next EDM/EOC, five-frame joining, four-second default, transmission order, rejection of a display shorter than 0.05 s) is checked by bounded symbolic execution of the public read() over stream-shape selectors against an exact-rational reference schedule.",
        "Trusted: z3; AST->LIA translator (validated on concrete timecodes every run; the stamp's regex shape check is stubbed there and executed for real in the E1 part); CrossHair for the finite stream shapes with concrete timecodes.",
        "AST->QF_LIA exact binary64 encoding (z3) + CrossHair symbolic execution over stream shapes",
    )
    claim(
        "C16",
        "Bounded symbolic execution of the public SCCReader.read over roll-up (2/3/4 rows) and paint-on stream shapes (1-3 rows quick, 5 thorough; short/long rows; base rows; single/doubled codes; drop/non-drop; carriage return placement; mode switches): the concatenated caption text equals the transmitted characters in order, each row's text stays together, captions are ordered with start < end and each ends exactly when the next begins.",
        "Trusted: CrossHair+z3 (finite stream shapes, completeness certified); concrete timecodes (arithmetic: C06).",
        "CrossHair symbolic execution + z3 over stream-shape selectors",
    )
    claim(
        "C17",
        "Bounded symbolic execution of SCCWriter.write and of reading its output back: for captions built from word lengths around the 32-column limit, every basic-table character, and cue spacings from sparse to just feasible, the output is a Scenarist header plus timecoded lines of four-hex-digit odd-parity words addressing consecutive rows ending at row 15 with at most 32 columns per row and breaks only at spaces, re-reading gives the same words, one caption per caption, non-decreasing timecodes, each caption visible within three frames of its start. The timecode arithmetic (ASTs of write PASS 2/3 and _format_timestamp) is decided exactly for every integer microsecond of one-second bands including the minute and hour carries.",
        "Trusted: CrossHair+z3; vlib/ref608.py; AST->LIA translator with native calls for the text layout (validated on concrete starts every run). The 24 h range is covered only on bands (the four-floor float chain forks too much).",
        "CrossHair symbolic execution + z3; AST->QF_LIA exact binary64 encoding on bands",
    )
