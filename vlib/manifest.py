"""Regenerates /verif/MANIFEST.json from the table below:  python -m vlib.manifest"""
import json
import sys

ALL = [f"C{i:02d}" for i in range(1, 21)]

# property -> dict(text=..., note=..., technique=..., design_ref=...)
CLAIMED = {}

NOT_YET = "check not built yet in this session (planned: see DESIGN.md section 2); will be claimed once its obligations confirm"


def claim(pid, text, note, technique, design_ref=None):
    CLAIMED[pid] = dict(text=text, note=note, technique=technique, design_ref=design_ref or f"DESIGN.md section 2, {pid}")


from vlib.manifest_table import fill  # noqa: E402

NA = {}
fill(claim, NA)


def build():
    checks = []
    for pid in ALL:
        if pid not in CLAIMED:
            continue
        c = CLAIMED[pid]
        checks.append({
            "property_id": pid,
            "quick_cmd": f"/verif/setup.sh && /verif/.venv/bin/python /verif/checks/{pid}.py --tier quick",
            "thorough_cmd": f"/verif/setup.sh && /verif/.venv/bin/python /verif/checks/{pid}.py --tier thorough",
            "evidence_file": f"/verif/evidence/{pid}.json",
            "replay_cmd_template": "/verif/.venv/bin/python {path}",
            "engine": "solver",
            "level_claimed": {"category": "model_checking", "text": c["text"], "design_ref": c["design_ref"]},
            "level_note": c["note"],
            "technique": c["technique"],
        })
    na = [{"property_id": p, "reason": NA.get(p, NOT_YET)} for p in ALL if p not in CLAIMED]
    return {
        "version": 1,
        "setup_cmd": "/verif/setup.sh",
        "hooks": {
            "guard": "PBS_PYCAPTION_VERIF",
            "enable": "no source hooks are needed: harnesses import /repo's working tree (editable install) and reach private helpers and the readers' own factory hooks directly; checks export PBS_PYCAPTION_VERIF=1 for uniformity",
            "baseline_off_cmd": "cd /repo && env -u PBS_PYCAPTION_VERIF /venv/bin/python -m pytest -ra -q -p no:cacheprovider --timeout=900 --continue-on-collection-errors",
            "source_commits": [],
            "add_only": True,
        },
        "engines": [
            {"name": "solver", "path": "/verif/vlib/run.py",
             "serves_properties": [p for p in ALL if p in CLAIMED],
             "kind_free_text": "bounded symbolic checking of the real code: E1 CrossHair (symbolic execution of /repo's functions, z3) with reachability twins; E2 AST->QF_LIA exact IEEE-754 encoding; E3 compiled regex -> z3 regex terms; E4 AST -> EUF/LRA. Encodings regenerated from /repo on every run; counterexamples replayed on the plain interpreter."},
        ],
        "checks": checks,
        "not_applicable": na,
        "notes": "Exit codes of every check: 0 all obligations discharged, 1 reproduced counterexample (VIOLATION line), 3 inconclusive/harness error. Known findings: /verif/known_findings.json.",
    }


if __name__ == "__main__":
    m = build()
    json.dump(m, open("/verif/MANIFEST.json", "w"), indent=1)
    try:
        import jsonschema
        jsonschema.validate(m, json.load(open("/root/.vp/MANIFEST.schema.json")))
        print("MANIFEST.json valid;", len(m["checks"]), "checks,", len(m["not_applicable"]), "not_applicable")
    except ImportError:
        print("written (jsonschema not available for validation)")
