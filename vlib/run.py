"""Obligation runner for the /verif checks.

An *obligation* is one solver-decided statement about /repo's current code:

* kind "ch"  - a harness function with a PEP-316 contract, decided by
  `crosshair check` (symbolic execution of the real pycaption functions, z3).
  Verdict that counts: "Confirmed over all paths".  Each ch obligation has a
  generated reachability twin (same body, postcondition False) that must be
  refuted, otherwise the obligation is vacuous.
* kind "smt" - a python function (in /verif/smt/*.py) that regenerates an SMT
  encoding from /repo's source (AST / compiled regex / tables), discharges the
  queries with z3 (cvc5 as second opinion where stated) and returns a JSON verdict.

Exit codes: 0 all discharged; 1 a counterexample that reproduced on the real code
(VIOLATION line printed); 3 inconclusive / harness error (never reported as success).
"""
from __future__ import annotations

import ast
import json
import os
import re
import subprocess
import sys
import time
from concurrent.futures import ThreadPoolExecutor
from dataclasses import dataclass, field

VERIF = "/verif"
PY = f"{VERIF}/.venv/bin/python"
GEN = f"{VERIF}/.gen"
# replays and evidence of the registered checks live under /verif; evaluations of seeded changes (VERIF_REPO set by tools/) write elsewhere
OUT = VERIF if not os.environ.get("VERIF_REPO") else os.environ.get("VERIF_OUT", "/tmp/verif_eval_out")
NPROC = int(os.environ.get("VERIF_NPROC", "16"))


def ensure_env():
    subprocess.run([f"{VERIF}/setup.sh"], check=True, stdout=subprocess.DEVNULL)
    os.makedirs(GEN, exist_ok=True)


@dataclass
class Ob:
    name: str
    kind: str  # "ch" | "smt"
    module: str  # harness.C01_x  | smt.C01_fp
    func: str
    timeout: float = 60.0  # per_condition_timeout (ch) / wall timeout (smt)
    path_timeout: float | None = None
    bounds: str = ""
    functions: tuple = ()  # pycaption functions exercised (for the evidence)
    known: str | None = None  # id in known_findings.json this obligation is expected to re-find
    args: dict = field(default_factory=dict)  # smt: keyword args
    twin: bool = True
    exhaustive: bool = False  # finite structure space walked completely when confirmed
    engine: str = ""
    plugin: bool = True


def ch(name, module, func=None, **kw):
    return Ob(name=name, kind="ch", module=module, func=func or name, engine=kw.pop("engine", "E1 crosshair+z3"), **kw)


def smt(name, module, func=None, **kw):
    return Ob(name=name, kind="smt", module=module, func=func or name, engine=kw.pop("engine", "z3"), **kw)


# ---------------------------------------------------------------------------
# crosshair obligations
# ---------------------------------------------------------------------------
_POST = re.compile(r"^(\s*)post(\[[^\]]*\])?:.*$", re.M)


def _make_twin(module: str) -> str:
    """Write .gen/twin_<module>.py: same source, every postcondition replaced by False."""
    src_path = f"{VERIF}/{module.replace('.', '/')}.py"
    src = open(src_path).read()
    twin_name = "twin_" + module.replace(".", "_")
    out = _POST.sub(lambda m: f"{m.group(1)}post: False", src)
    path = f"{GEN}/{twin_name}.py"
    if not os.path.exists(path) or open(path).read() != out:
        with open(path + ".tmp%d" % os.getpid(), "w") as f:
            f.write(out)
        os.replace(path + ".tmp%d" % os.getpid(), path)
    return twin_name


def _env():
    e = dict(os.environ)
    alt = os.environ.get("VERIF_REPO")  # evaluation of seeded changes in a scratch worktree (tools/); checks use /repo
    e["PYTHONPATH"] = (f"{alt}:" if alt else "") + f"{VERIF}:{GEN}"
    e["PYTHONHASHSEED"] = "0"
    e.setdefault("PBS_PYCAPTION_VERIF", "1")
    return e


_MSG = re.compile(r"^(?P<file>[^:\n]+):(?P<line>\d+): (?P<level>error|info|warning): (?P<msg>.*)$", re.M)
_ITER = re.compile(r"(Exhausted|Aborted) calltree search with (\w+) and \d+ messages\. Number of iterations:\s+(\d+)")
_CALL = re.compile(r"when calling (?P<call>.*?)(?: \(which returns (?P<ret>.*)\))?$", re.S)


def _run_crosshair(target: str, timeout: float, path_timeout: float | None, plugin: bool, verbose=True):
    cmd = [PY, "-m", "crosshair", "check"]
    if plugin:
        cmd += ["--extra_plugin", f"{VERIF}/vlib/ch_plugin.py"]
    cmd += ["--report_all", "--per_condition_timeout", str(timeout)]
    if path_timeout:
        cmd += ["--per_path_timeout", str(path_timeout)]
    if verbose:
        cmd += ["-v"]
    cmd += [target]
    t0 = time.time()
    try:
        p = subprocess.run(cmd, capture_output=True, text=True, env=_env(), cwd=VERIF,
                           timeout=timeout * 3 + 120)
        out, err, rc = p.stdout, p.stderr, p.returncode
    except subprocess.TimeoutExpired as e:
        out = (e.stdout or b"").decode() if isinstance(e.stdout, bytes) else (e.stdout or "")
        err = "WALL TIMEOUT"
        rc = -9
    wall = time.time() - t0
    verdict, msg, paths = "inconclusive", "", 0
    for m in _ITER.finditer(err):
        paths = max(paths, int(m.group(3)))
    decisions = err.count("SMT chose")  # branch decisions settled by the solver along the explored paths (-v log)
    msgs = [m.groupdict() for m in _MSG.finditer(out)]
    errs = [m for m in msgs if m["level"] == "error"]
    infos = [m for m in msgs if m["level"] == "info"]
    if errs:
        verdict, msg = "counterexample", errs[0]["msg"]
        # multi-line messages (e.g. returned strings with newlines) are rare; keep first line
    elif any("Confirmed over all paths" in m["msg"] for m in infos):
        verdict = "confirmed"
    elif any("Unable to meet precondition" in m["msg"] for m in infos):
        verdict, msg = "noprecondition", "Unable to meet precondition"
    elif any("Not confirmed" in m["msg"] for m in infos):
        verdict, msg = "inconclusive", "Not confirmed (paths timed out or solver unknown)"
    else:
        tail = (out + "\n" + err)[-1500:]
        verdict, msg = "inconclusive", f"unparsed crosshair output rc={rc}: {tail}"
    return dict(verdict=verdict, msg=msg, paths=paths, wall=wall, rc=rc, decisions=decisions)


def _replay_ch(pid: str, ob: Ob, msg: str):
    """Re-run the harness function concretely (plain interpreter, no CrossHair, no plugin)
    on the counterexample's arguments.  Returns (reproduced, replay_path, detail)."""
    m = _CALL.search(msg)
    os.makedirs(f"{OUT}/replays/{pid}", exist_ok=True)
    path = f"{OUT}/replays/{pid}/{ob.name}.py"
    if not m:
        return False, path, "could not parse counterexample call from: " + msg
    call = m.group("call").strip()
    exc_expected = not msg.startswith("false when calling")
    code = f'''"""Replay of a counterexample for {pid} obligation {ob.name}.
CrossHair message: {msg!r}
Runs the same harness body on the concrete arguments in a plain interpreter (no CrossHair,
no plugin): the harness drives the real pycaption code from /repo; exit 1 = reproduced."""
import sys
sys.path[:0] = [{VERIF!r}]
from {ob.module} import *  # noqa
import {ob.module} as _m
try:
    _r = _m.{call}
except Exception as _e:
    print("REPLAY raised", type(_e).__name__, _e)
    sys.exit(1)
print("REPLAY returned", repr(_r))
if _r == "" or _r is True or _r is None:
    sys.exit(0)
_pub = getattr(_m, "public_" + {ob.func!r}, None)
if _pub is not None:
    # the same scenario through pycaption's public API (no stubs): must fail as well
    _call = {call!r}
    _r2 = eval("_pub" + _call[_call.index("("):], vars(_m), {{"_pub": _pub}})
    print("PUBLIC-API REPLAY returned", repr(_r2))
    sys.exit(0 if _r2 == "" else 1)
sys.exit(1)
'''
    with open(path, "w") as f:
        f.write(code)
    e = dict(os.environ)
    e.pop("PYTHONPATH", None)
    if os.environ.get("VERIF_REPO"):
        e["PYTHONPATH"] = os.environ["VERIF_REPO"]
    e["PBS_PYCAPTION_VERIF"] = "1"
    try:
        p = subprocess.run([PY, path], capture_output=True, text=True, timeout=300, env=e, cwd=VERIF)
    except subprocess.TimeoutExpired:
        return False, path, "replay timed out"
    return p.returncode == 1, path, (p.stdout + p.stderr)[-600:]


def _validate_witness(ob: Ob, call: str):
    """Run the obligation function concretely (no CrossHair) on the reachability witness: it must return "".
    Returns (True/False/None, detail); None = could not be executed (not counted)."""
    code = (f"import sys; sys.path[:0]=[{VERIF!r}]\nfrom {ob.module} import *\nimport {ob.module} as _m\n"
            f"r = _m.{call}\nprint('@@W@@' + repr(r))\n")
    try:
        p = subprocess.run([PY, "-c", code], capture_output=True, text=True, timeout=120, env=_env(), cwd=VERIF)
    except subprocess.TimeoutExpired:
        return None, "timeout"
    m = re.search(r"@@W@@(.*)$", p.stdout, re.M)
    if not m:
        return None, (p.stderr or p.stdout)[-300:]
    return (m.group(1) == "''"), m.group(1)[:300]


def _run_ch(pid: str, ob: Ob):
    pt = ob.path_timeout or max(30.0, ob.timeout ** 0.5)
    res = _run_crosshair(f"{ob.module}.{ob.func}", ob.timeout, pt, ob.plugin)
    attempts = 1
    while res["verdict"] == "inconclusive" and attempts < 3:
        # "Confirmed" is sound whenever it is reached; a path that hit the per-path solver budget on a
        # loaded machine is retried with a larger budget before the obligation is declared inconclusive.
        attempts += 1
        res2 = _run_crosshair(f"{ob.module}.{ob.func}", ob.timeout * 2, pt * 2, ob.plugin)
        res2["paths"] = max(res2["paths"], 0)
        res2["wall"] += res["wall"]
        res2["decisions"] += res["decisions"]
        res = res2
    r = dict(name=ob.name, kind="ch", engine=ob.engine, verdict=res["verdict"], detail=res["msg"], paths=res["paths"],
             wall_s=round(res["wall"], 2), bounds=ob.bounds, functions=list(ob.functions), queries=0,
             solver_s=None, exhaustive=ob.exhaustive, known=ob.known, attempts=attempts, decisions=res["decisions"], validated=0)
    if res["verdict"] == "counterexample":
        ok, path, detail = _replay_ch(pid, ob, res["msg"])
        r["replay"] = path
        r["reproduced"] = ok
        r["replay_detail"] = detail
        r["validated"] += 1 if ok else 0
        r["verdict"] = "violated" if ok else "inconclusive"
        if not ok:
            r["detail"] = "counterexample did not reproduce concretely (encoding/model issue): " + res["msg"]
    elif res["verdict"] == "confirmed":
        r["verdict"] = "holds"
    elif res["verdict"] == "noprecondition":
        r["verdict"] = "inconclusive"
    if ob.twin:
        twin = _make_twin(ob.module)
        tw = _run_crosshair(f"{twin}.{ob.func}", min(ob.timeout, 120), pt, ob.plugin, verbose=False)
        r["twin_wall_s"] = round(tw["wall"], 2)
        if tw["verdict"] == "counterexample":
            m = _CALL.search(tw["msg"])
            r["witness"] = (m.group("call").strip() if m else tw["msg"])[:400]
            if m and r["verdict"] == "holds":
                # the witness input is executed once more through the harness on the real code in the plain interpreter
                good, detail = _validate_witness(ob, m.group("call").strip())
                if good:
                    r["validated"] += 1
                elif good is False:
                    # the harness, run concretely on the real code, fails on this input although the symbolic run passed
                    # (CrossHair replaces some library behaviour while tracing, e.g. functools.lru_cache): an ordinary
                    # counterexample - replay it the usual way and report it only if it reproduces
                    msg = f"false when calling {m.group('call').strip()} (which returns {detail})"
                    ok, path, rdetail = _replay_ch(pid, ob, msg)
                    r["replay"], r["reproduced"], r["replay_detail"] = path, ok, rdetail
                    r["verdict"] = "violated" if ok else "inconclusive"
                    r["detail"] = msg + " [found by the concrete execution of the reachability witness]"
                    r["validated"] += 1 if ok else 0
        else:
            r["witness"] = None
            if r["verdict"] == "holds":
                r["verdict"] = "inconclusive"
                r["detail"] = f"vacuous: reachability twin was not refuted ({tw['verdict']}: {tw['msg'][:200]})"
    return r


# ---------------------------------------------------------------------------
# direct SMT obligations
# ---------------------------------------------------------------------------
def _run_smt(pid: str, ob: Ob):
    code = (f"import json,sys; sys.path[:0]=[{VERIF!r}]; import {ob.module} as m; "
            f"r = m.{ob.func}(**{ob.args!r}); print('@@RESULT@@'+json.dumps(r))")
    t0 = time.time()
    e = _env()
    try:
        p = subprocess.run([PY, "-c", code], capture_output=True, text=True, timeout=ob.timeout, env=e, cwd=VERIF)
        out, err = p.stdout, p.stderr
    except subprocess.TimeoutExpired:
        out, err = "", "timeout"
    wall = time.time() - t0
    r = dict(name=ob.name, kind="smt", engine=ob.engine, verdict="inconclusive", detail="", paths=0, wall_s=round(wall, 2),
             bounds=ob.bounds, functions=list(ob.functions), queries=0, solver_s=0.0, exhaustive=False,
             known=ob.known, witness=None, decisions=0, validated=0)
    m = re.search(r"@@RESULT@@(.*)$", out, re.M)
    if not m:
        r["detail"] = "smt obligation produced no result: " + (err or out)[-800:]
        return r
    res = json.loads(m.group(1))
    r["queries"] = res.get("queries", 0)
    r["solver_s"] = round(res.get("solver_s", 0.0), 3)
    r["witness"] = res.get("witness")
    r["bounds"] = res.get("bounds", ob.bounds)
    if res.get("functions"):
        r["functions"] = res["functions"]
    r["detail"] = res.get("detail", "")
    st = res.get("status")
    if st == "holds":
        r["verdict"] = "holds" if (r["witness"] is not None or not ob.twin) else "inconclusive"
        if r["verdict"] == "inconclusive":
            r["detail"] = "vacuous: no reachability witness"
    elif st == "violated":
        # the smt module has already replayed the model on the real code
        os.makedirs(f"{OUT}/replays/{pid}", exist_ok=True)
        path = f"{OUT}/replays/{pid}/{ob.name}.py"
        with open(path, "w") as f:
            f.write(res.get("replay_code") or f"# counterexample: {res.get('counterexample')!r}\n")
        r["replay"] = path
        r["counterexample"] = res.get("counterexample")
        if res.get("reproduced"):
            # run the replay script independently as well
            ee = dict(os.environ)
            ee.pop("PYTHONPATH", None)
            if os.environ.get("VERIF_REPO"):
                ee["PYTHONPATH"] = os.environ["VERIF_REPO"]
            try:
                pp = subprocess.run([PY, path], capture_output=True, text=True, timeout=300, env=ee, cwd=VERIF)
                ok = pp.returncode == 1
                r["replay_detail"] = (pp.stdout + pp.stderr)[-600:]
            except subprocess.TimeoutExpired:
                ok = False
            r["reproduced"] = ok
            r["validated"] = 1 if ok else 0
            r["verdict"] = "violated" if ok else "inconclusive"
            if not ok:
                r["detail"] = "model did not reproduce through the replay script: " + str(res.get("counterexample"))
        else:
            r["reproduced"] = False
            r["detail"] = "model did not reproduce on the real code (encoding wrong): " + str(res.get("counterexample"))
    else:
        r["detail"] = r["detail"] or f"status={st}"
    return r


# ---------------------------------------------------------------------------
def load_known(pid: str):
    try:
        data = json.load(open(f"{VERIF}/known_findings.json"))
    except FileNotFoundError:
        return {}
    return {e["id"]: e for e in data.get("findings", []) if e.get("property") == pid}


def run_check(pid: str, obligations: list[Ob], tier: str, *, level_text: str = "", assumptions: list[str] | None = None,
              rule: str = "", extra: dict | None = None, selftests: list | None = None):
    """Run all obligations in parallel, print verdicts, write evidence, return exit code."""
    t0 = time.time()
    ensure_env()
    seed = int(os.environ.get("VERIF_SEED", "0") or 0)
    known = load_known(pid)
    st_info = []
    for fn in selftests or []:
        try:
            st_info.append(f"{fn.__module__}.{fn.__name__}: {fn()}")
        except Exception as e:  # a broken trusted component = broken check
            print(f"HARNESS-ERROR property={pid} selftest {fn.__name__} failed: {e}")
            _write_evidence(pid, tier, seed, [], time.time() - t0, level_text, assumptions, rule, extra, st_info, [], failed=True)
            return 3

    def one(ob):
        try:
            return _run_ch(pid, ob) if ob.kind == "ch" else _run_smt(pid, ob)
        except Exception as e:  # runner bug
            return dict(name=ob.name, kind=ob.kind, engine=ob.engine, verdict="inconclusive", detail=f"runner exception {e!r}",
                        paths=0, wall_s=0, bounds=ob.bounds, functions=list(ob.functions), queries=0, solver_s=0,
                        exhaustive=False, known=ob.known, witness=None)

    # longest first
    order = sorted(obligations, key=lambda o: -o.timeout)
    with ThreadPoolExecutor(max_workers=NPROC) as ex:  # one subprocess per worker at a time
        results = list(ex.map(one, order))
    results.sort(key=lambda r: r["name"])

    violations, inconclusive, known_hits = [], [], []
    for r in results:
        tag = r["verdict"]
        if r["known"]:
            kf = known.get(r["known"])
            if tag == "violated" and kf and kf.get("status") == "known":
                known_hits.append((r, kf))
                tag = "known-finding"
            elif tag == "violated":
                violations.append(r)  # listed as fixed (or not listed): the defect is back
            elif tag == "holds":
                tag = "holds (finding no longer reproduces)"
            else:
                inconclusive.append(r)
        elif tag == "violated":
            violations.append(r)
        elif tag != "holds":
            inconclusive.append(r)
        r["tag"] = tag
        print(f"[{pid}] {r['name']:<44} {tag:<14} paths={r['paths']:<5} queries={r['queries']:<6} "
              f"{r['wall_s']:>7.1f}s  {r['detail'][:160] if tag not in ('holds',) else ''}")
    for r, kf in known_hits:
        print(f"KNOWN-FINDING: property={pid} {kf['what']} [{kf['id']}; witness {r.get('counterexample') or r['detail'][:200]}]")
    for r in violations:
        print(f"VIOLATION property={pid} replay={r.get('replay')}")
        print(f"  obligation {r['name']}: {r['detail'][:500]}")
        if r.get("replay_detail"):
            print("  replay output: " + r["replay_detail"].strip().replace("\n", "\n    ")[:600])
    for r in inconclusive:
        print(f"INCONCLUSIVE property={pid} obligation={r['name']}: {r['detail'][:600]}")
    wall = time.time() - t0
    _write_evidence(pid, tier, seed, results, wall, level_text, assumptions, rule, extra, st_info,
                    [kf["id"] for _, kf in known_hits], failed=bool(inconclusive))
    if violations:
        rc = 1
    elif inconclusive:
        rc = 3
    else:
        rc = 0
    print(f"[{pid}] tier={tier} obligations={len(results)} discharged={sum(1 for r in results if r['verdict']=='holds')} "
          f"known={len(known_hits)} violations={len(violations)} inconclusive={len(inconclusive)} wall={wall:.1f}s exit={rc}")
    return rc


def _write_evidence(pid, tier, seed, results, wall, level_text, assumptions, rule, extra, st_info, known_ids, failed):
    os.makedirs(f"{OUT}/evidence", exist_ok=True)
    paths = sum(r["paths"] for r in results)
    queries = sum(r["queries"] for r in results)
    nontrivial = sum(1 for r in results if r.get("witness"))
    decisions = sum(r.get("decisions", 0) for r in results)
    validated = sum(r.get("validated", 0) for r in results)
    samples = []
    for r in results[:]:
        if r.get("witness") and len(samples) < 6:
            samples.append({"obligation": r["name"], "engine": r["engine"], "bounds": r["bounds"],
                            "reachability_witness": r["witness"], "verdict": r["verdict"]})
    cov = {
        "evaluations": paths + queries,
        "distinct_nontrivial": nontrivial,
        "rule": rule or ("evaluations = CrossHair execution paths explored (from its -v log; a lower bound) plus direct SMT "
                         "queries issued; an obligation counts as distinct and non-trivial when its reachability twin "
                         "(same harness, postcondition False / encoding without the negated property) produced a model, "
                         "i.e. the assertion is reachable and the precondition satisfiable"),
        "samples": samples or [{"note": "no obligation ran"}],
        # model_checking keys: states = symbolic states decided (one per explored path condition of the real code + one per
        # direct SMT query); transitions = branch decisions the solver settled on those paths (CrossHair -v log) + SMT
        # queries; traces_validated_against_impl = concrete executions on the real code in the plain interpreter
        # (reachability witnesses returning "", counterexamples reproduced)
        "states": paths + queries,
        "transitions": decisions + queries,
        "traces_validated_against_impl": validated,
        "obligations": len(results),
        "discharged": sum(1 for r in results if r["verdict"] == "holds"),
        "crosshair_paths": paths,
        "smt_queries": queries,
        "solver_s": round(sum((r["solver_s"] or 0) for r in results), 2),
        "cpu_wall_s_sum": round(sum(r["wall_s"] + r.get("twin_wall_s", 0) for r in results), 1),
        "exhaustive": False,
        "explanation": level_text,
        "known_findings_matched": known_ids,
        "selftests": st_info,
        "per_obligation": [
            {k: r.get(k) for k in ("name", "engine", "verdict", "bounds", "functions", "paths", "queries", "solver_s",
                                   "wall_s", "exhaustive", "witness", "known", "detail")} for r in results],
    }
    if extra:
        cov.update(extra)
    ev = {
        "property_id": pid,
        "tier": tier,
        "seed": seed,
        "level": "model_checking",
        "coverage": cov,
        "assumptions": assumptions or [],
        "wall_s": round(wall, 2),
        "violations": sum(1 for r in results if r["verdict"] == "violated" and not (r.get("known"))),
    }
    tmp = f"{OUT}/evidence/{pid}.json.tmp"
    with open(tmp, "w") as f:
        json.dump(ev, f, indent=1, default=str)
    os.replace(tmp, f"{OUT}/evidence/{pid}.json")


def tier_from_argv(argv=None):
    argv = sys.argv[1:] if argv is None else argv
    tier = os.environ.get("VERIF_TIER", "quick")
    for i, a in enumerate(argv):
        if a == "--tier" and i + 1 < len(argv):
            tier = argv[i + 1]
        elif a.startswith("--tier="):
            tier = a.split("=", 1)[1]
    if tier not in ("quick", "thorough"):
        tier = "quick"
    return tier


def only_from_argv(argv=None):
    argv = sys.argv[1:] if argv is None else argv
    for i, a in enumerate(argv):
        if a == "--only" and i + 1 < len(argv):
            return argv[i + 1]
    return None
