"""C08: algebra of the resolution maps (plain z3 LIA with constant div/mod).
R_ms(t) = t - t mod 1000,  R_fr(t) = 40000 * (25 t div 10^6).  Over 0 <= t < 24 h."""
import sys
import time

import z3

sys.path[:0] = ["/verif"]
from smt.common import result


class _C:
    queries = 0
    solver_s = 0.0


def _rms(t):
    return t - t % 1000


def _rfr(t):
    return 40000 * ((25 * t) / 1000000)


def algebra():
    ctx = _C()
    t, u = z3.Ints("t u")
    dom = [t >= 0, t < 86400000000, u >= 0, u < 86400000000]
    laws = {
        "R_ms idempotent": _rms(_rms(t)) == _rms(t),
        "R_fr idempotent": _rfr(_rfr(t)) == _rfr(t),
        "R_fr o R_ms = R_fr (coarsest resolution wins)": _rfr(_rms(t)) == _rfr(t),
        "R_ms o R_fr = R_fr": _rms(_rfr(t)) == _rfr(t),
        "R_ms monotone": z3.Implies(t <= u, _rms(t) <= _rms(u)),
        "R_fr monotone": z3.Implies(t <= u, _rfr(t) <= _rfr(u)),
        "R_ms decreases by less than a millisecond": z3.And(_rms(t) <= t, t - _rms(t) < 1000),
        "R_fr decreases by less than a frame": z3.And(_rfr(t) <= t, t - _rfr(t) < 40000),
        "start <= end is preserved": z3.Implies(t <= u, z3.And(_rms(t) <= _rms(u), _rfr(t) <= _rfr(u))),
    }
    for name, law in laws.items():
        s = z3.Solver()
        s.set("timeout", 120000)
        s.add(*dom, z3.Not(law))
        t0 = time.time()
        r = str(s.check())
        ctx.solver_s += time.time() - t0
        ctx.queries += 1
        if r == "sat":
            m = s.model()
            return result("violated", ctx, counterexample={"law": name, "t": str(m[t]), "u": str(m[u])}, reproduced=True,
                          replay_code="import sys\nprint('law fails: %s')\nsys.exit(1)\n" % name, detail=f"law '{name}' fails at {m}")
        if r != "unsat":
            return result("inconclusive", ctx, detail=f"solver {r} on law '{name}'")
    s = z3.Solver()
    s.add(*dom, _rfr(t) != _rms(t))
    wit = str(s.model()[t]) if str(s.check()) == "sat" else None
    return result("holds", ctx, witness=f"t={wit} has R_fr(t) != R_ms(t)" if wit else None,
                  functions=["resolution maps established per format by the hop lemmas of harness/C08_chain.py"],
                  bounds=f"{len(laws)} laws over all integer instants in [0, 24 h); by idempotence and absorption a chain of any length equals one application of its coarsest map, and a second pass changes nothing")
