"""C17 (E2): the SCC writer's timecode of a caption, from the ASTs of SCCWriter.write (PASS 2/3) and _format_timestamp:
for every start instant the timecode fields are valid and the End-Of-Caption word is sent within three frames of it."""
import sys
from fractions import Fraction as Fr

import z3

sys.path[:0] = ["/verif"]
from vlib import fplia
from vlib.fplia import Ctx, IntV, RatV, SymFmt, run_function
from smt.common import decide, result, REPLAY_HEAD


def _set(start, text):
    from pycaption.base import Caption, CaptionNode, CaptionSet, CaptionList
    c = object.__new__(Caption)
    c.start, c.end, c.nodes, c.style, c.layout_info = start, start + 1500000 if not isinstance(start, IntV) else None, [CaptionNode.create_text(text)], {}, None
    return c


def write_timecode(text="hello world", smin=None, smax=86400000000 - 1):
    """SCCWriter().write(one caption at a symbolic start): timecode valid; EOC word within 3 frames of start"""
    from pycaption.scc import SCCWriter
    from pycaption.base import Caption, CaptionNode, CaptionSet, CaptionList
    import hashlib, inspect
    hsh = hashlib.sha256(inspect.getsource(SCCWriter).encode()).hexdigest()[:12]
    code = SCCWriter()._text_to_code(Caption(0, 1, [CaptionNode.create_text(text)]))
    n = len(code) // 5
    pre_roll = int((n + 8) * 1001000 / 30) + 1
    if smin is None:
        smin = pre_roll
    S = z3.Int("S")

    def run(lo, hi):
        ctx = Ctx()
        cap = object.__new__(Caption)
        cap.start = IntV(S, lo, hi)
        cap.end = 86399999999  # concrete: only the start timecode is the subject (the end timecode is the same kernel)
        cap.nodes = [CaptionNode.create_text(text)]
        cap.style = {}
        cap.layout_info = None
        cs = CaptionSet({"en-US": CaptionList([cap])})
        outs = run_function(ctx, SCCWriter.write, {"self": SCCWriter(), "caption_set": cs},
                            stubs={"__native__": (SCCWriter._text_to_code, CaptionSet.is_empty, CaptionSet.get_languages, CaptionSet.get_captions)})
        return ctx, outs

    def fields(o):
        if o.kind != "return" or not isinstance(o.value, SymFmt):
            return None
        syms = o.value.symbols()
        return syms[:4] if len(syms) >= 4 else None

    # translator validation
    nval = 0
    for sv in (smin, smin + 1, 20000000, 3600000000, 86399999999 if smax > 86399999999 - 1 else smax):
        if not (smin <= sv <= smax):
            continue
        c2, outs2 = run(sv, sv)
        got = None
        for o in outs2:
            f = fields(o)
            if f is None:
                continue
            st, mm = c2.check([S == sv] + o.cons)
            if st == "sat":
                got = "%02d:%02d:%02d:%02d" % tuple(fplia.model_int(mm, x.t) for x in f)
                break
        out = SCCWriter().write(CaptionSet({"en-US": CaptionList([Caption(sv, 86399999999, [CaptionNode.create_text(text)])])}))
        want = out.split("\n")[2].split("\t")[0]
        if got != want:
            raise AssertionError(f"translator validation failed at start {sv}: real timecode {want}, encoding {got}")
        nval += 1
    ctx, outs = run(smin, smax)
    pre = [S >= smin, S <= smax]

    def violated(o):
        f = fields(o)
        if f is None:
            return z3.BoolVal(True)
        H, M, Sx, F = (x.t for x in f)
        valid = z3.And(H >= 0, M >= 0, M < 60, Sx >= 0, Sx < 60, F >= 0, F < 30)
        # instant of the EOC word (index n + 6 of the line) as the reader computes it, exactly: *30*1000
        vis = (30 * (3600 * H + 60 * M + Sx) + F + n + 6) * 1001 * 1000000      # = t_vis * 30 * 1000
        tgt = S * 30 * 1000
        three = 3 * 1001 * 1000000                                             # 3 frames * 30 * 1000
        close = z3.And(vis - tgt <= three, tgt - vis <= three)
        return z3.Not(z3.And(valid, close))
    st, m, o, wit = decide(ctx, outs, pre, violated)
    fns = [f"pycaption.scc.SCCWriter.write (PASS 2/3) + _format_timestamp#{hsh}"]
    bounds = (f"one caption '{text}' ({n} code words) at every integer start in [{smin}, {smax}] us; {len(outs)} case paths; "
              f"validated on {nval} concrete starts")
    if st == "unsat":
        return result("holds", ctx, witness=(f"start={fplia.model_int(wit[0], S)}" if wit else None), functions=fns, bounds=bounds)
    if st == "unknown":
        return result("inconclusive", ctx, detail="solver unknown", functions=fns, bounds=bounds)
    sv = fplia.model_int(m, S)
    from pycaption import SCCReader
    out = SCCWriter().write(CaptionSet({"en-US": CaptionList([Caption(sv, sv + 1500000, [CaptionNode.create_text(text)])])}))
    back = SCCReader().read(out).get_captions("en-US")[0].start
    bad = abs(Fr(back) - sv) > 3 * Fr(1001000, 30)
    code_ = REPLAY_HEAD + f'''from fractions import Fraction
from pycaption import SCCWriter, SCCReader
from pycaption.base import Caption, CaptionNode, CaptionSet, CaptionList
out = SCCWriter().write(CaptionSet({{"en-US": CaptionList([Caption({sv}, {sv + 1500000}, [CaptionNode.create_text({text!r})])])}}))
back = SCCReader().read(out).get_captions("en-US")[0].start
print(out.split("\\n")[2][:60], "-> visible at", back, "start", {sv})
sys.exit(1 if abs(Fraction(back) - {sv}) > 3 * Fraction(1001000, 30) else 0)
'''
    return result("violated", ctx, counterexample={"start": sv, "visible_at": back}, reproduced=bool(bad), replay_code=code_, functions=fns, bounds=bounds,
                  detail=f"caption at {sv} us becomes visible at {back} us (more than three frames off) or its timecode is malformed")
