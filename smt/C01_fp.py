"""C01 float kernels (E2): MicroDVD frame -> microseconds, TTML offset times and clock frames.
The encodings are regenerated from the AST of the functions in /repo on every call."""
import sys
from fractions import Fraction as Fr

import z3

sys.path[:0] = ["/verif"]
from vlib import fplia
from vlib.fplia import Ctx, IntV, DecStr, run_function
from smt.common import decide, result, REPLAY_HEAD


def _validate_microdvd(fn, fps, points):
    """translator validation: encoding and real function agree on concrete inputs"""
    for n in points:
        ctx = Ctx()
        nv = z3.Int("n")
        outs = run_function(ctx, fn, {"self": None, "framenum": IntV(nv, n, n), "fps": fps})
        got = None
        for o in outs:
            st, m = ctx.check([nv == n] + o.cons)
            if st == "sat":
                got = fplia.model_int(m, o.value.t)
                break
        want = fn(None, n, fps)
        if got != want:
            raise AssertionError(f"translator validation failed: _framestomicro({n},{fps}) real={want} encoding={got}")
    return len(points)


def microdvd_read(fps_text="25.0", nmax=90000000, exclude_known=False):
    """int(framenum / fps * 10**6) == floor(framenum * 10**6 / fps_decimal) for all 0 <= framenum <= nmax"""
    from pycaption.microdvd import MicroDVDReader
    fn = MicroDVDReader._framestomicro
    fd, _, h = fplia.function_ast(fn)
    fps = float(fps_text)
    fr = Fr(fps_text)
    a, b = fr.numerator, fr.denominator  # fps = a/b
    nval = _validate_microdvd(fn, fps, [0, 1, 2, 3, 24, 25, 26, 100, 200, 201, 202, 203, 1000, 1001, 89999, 90000, 2**20-1, 2**20, 2**20+1, 12345678, nmax])
    ctx = Ctx()
    n = z3.Int("n")
    outs = run_function(ctx, fn, {"self": None, "framenum": IntV(n, 0, nmax), "fps": fps})
    pre = [n >= 0, n <= nmax]

    def violated(o):
        if o.kind != "return" or not isinstance(o.value, IntV):
            return z3.BoolVal(True)
        q = o.value.t
        return z3.Not(z3.And(q * a <= n * 10**6 * b, (q + 1) * a > n * 10**6 * b))

    st, m, o, wit = decide(ctx, outs, pre, violated)
    fns = [f"pycaption.microdvd.MicroDVDReader._framestomicro#{h}"]
    bounds = f"all frame numbers 0..{nmax}, fps={fps_text}; {len(outs)} binade case paths; translator validated on {nval} concrete inputs"
    if st == "unsat":
        w = f"n={fplia.model_int(wit[0], n)}" if wit else None
        return result("holds", ctx, witness=w, functions=fns, bounds=bounds)
    if st == "unknown":
        return result("inconclusive", ctx, detail="solver unknown", functions=fns, bounds=bounds)
    nv = fplia.model_int(m, n)
    exact = (nv * 10**6 * b) // a
    head = "" if fps_text == "25.0" else "{0}{0}%s\\n" % fps_text
    doc = f"{head}{{{nv}}}{{{nv + 50}}}x\\n"
    got = MicroDVDReader().read(doc.encode().decode("unicode_escape")).get_captions("und")[0].start
    code = REPLAY_HEAD + f'''from pycaption import MicroDVDReader
doc = "{doc}"
c = MicroDVDReader().read(doc).get_captions("und")[0]
exact = {exact}   # floor({nv} * 10**6 / {fps_text})
print("document", repr(doc), "read start =", c.start, "exact =", exact)
sys.exit(1 if c.start != exact else 0)
'''
    return result("violated", ctx, counterexample={"framenum": nv, "fps": fps_text, "read": got, "exact": exact},
                  reproduced=(got != exact), replay_code=code, functions=fns, bounds=bounds,
                  detail=f"MicroDVD frame {nv} at {fps_text} fps reads as {got} us, exact floor is {exact}")


# ---------------------------------------------------------------------------
# TTML offset time:  <count>(.<fraction>)?(h|m|s|ms|f)
# ---------------------------------------------------------------------------
class _FakeMatch:
    """models re.Match for TIME_EXPRESSION_PATTERN: group(name) -> symbolic numeral / concrete text"""

    def __init__(self, groups):
        self.groups_ = groups

    def group(self, name):
        return self.groups_.get(name)


_UNIT = {"h": 3600000000, "m": 60000000, "s": 1000000, "ms": 1000}


def _dfxp_read_start(begin):
    from pycaption.dfxp import DFXPReader
    doc = ('<?xml version="1.0" encoding="utf-8"?><tt xml:lang="en" xmlns="http://www.w3.org/ns/ttml">'
           f'<body><div xml:lang="en"><p begin="{begin}" dur="1s">hello</p></div></body></tt>')
    return DFXPReader().read(doc).get_captions("en")[0].start


_DFXP_REPLAY = REPLAY_HEAD + '''from pycaption.dfxp import DFXPReader
begin = {begin!r}
doc = ('<?xml version="1.0" encoding="utf-8"?><tt xml:lang="en" xmlns="http://www.w3.org/ns/ttml">'
       '<body><div xml:lang="en"><p begin="%s" dur="1s">hello</p></div></body></tt>' % begin)
start = DFXPReader().read(doc).get_captions("en")[0].start
exact = {exact}
print("begin =", begin, "read start =", start, "exact floor =", exact)
sys.exit(1 if start != exact else 0)
'''


def dfxp_offset(metric="s", k=1, pmax=10**6 - 1):
    """int(float('<p>/10^k') * unit) == floor(p * unit / 10^k) for all p <= pmax (k fraction digits)"""
    from pycaption.dfxp.base import DFXPReader
    fn = DFXPReader._convert_time_count_to_microseconds
    fd, _, h = fplia.function_ast(fn)
    ctx = Ctx()
    p = z3.Int("p")
    # translator validation on concrete numerals
    nval = 0
    import re as _re
    from pycaption.dfxp.base import TIME_EXPRESSION_PATTERN
    for pv in (0, 1, 7, 10, 41, 99, 100, 101, 999, 1001, 4100, 123456, pmax):
        if pv > pmax:
            continue
        c2 = Ctx()
        outs = run_function(c2, fn, {"time_count_match": _FakeMatch({"time_count": DecStr(IntV(p, pv, pv), k), "metric": metric})})
        got = None
        for o in outs:
            st, mm = c2.check([p == pv] + o.cons)
            if st == "sat":
                got = fplia.model_int(mm, o.value.t)
                break
        text = (f"{pv // 10**k}.{pv % 10**k:0{k}d}" if k else str(pv)) + metric
        want = fn(TIME_EXPRESSION_PATTERN.search(text))
        if got != want:
            raise AssertionError(f"translator validation failed on {text}: real={want} encoding={got}")
        nval += 1
    outs = run_function(ctx, fn, {"time_count_match": _FakeMatch({"time_count": DecStr(IntV(p, 0, pmax), k), "metric": metric})})
    pre = [p >= 0, p <= pmax]
    if metric == "f":
        num, den = 10**6, 30 * 10**k
    else:
        num, den = _UNIT[metric], 10**k

    def violated(o):
        if o.kind != "return" or not isinstance(o.value, IntV):
            return z3.BoolVal(True)
        q = o.value.t
        return z3.Not(z3.And(q * den <= p * num, (q + 1) * den > p * num))

    st, m, o, wit = decide(ctx, outs, pre, violated)
    fns = [f"pycaption.dfxp.base.DFXPReader._convert_time_count_to_microseconds#{h}"]
    bounds = (f"metric {metric}, counts with exactly {k} fraction digits, 0 <= count*10^{k} <= {pmax}; "
              f"{len(outs)} case paths; translator validated on {nval} numerals")
    if st == "unsat":
        return result("holds", ctx, witness=(f"p={fplia.model_int(wit[0], p)}" if wit else None), functions=fns, bounds=bounds)
    if st == "unknown":
        return result("inconclusive", ctx, detail="solver unknown", functions=fns, bounds=bounds)
    pv = fplia.model_int(m, p)
    text = (f"{pv // 10**k}.{pv % 10**k:0{k}d}" if k else str(pv)) + metric
    exact = pv * num // den
    got = _dfxp_read_start(text)
    return result("violated", ctx, counterexample={"begin": text, "read": got, "exact": exact}, reproduced=(got != exact),
                  replay_code=_DFXP_REPLAY.format(begin=text, exact=exact), functions=fns, bounds=bounds,
                  detail=f'TTML begin="{text}" reads as {got} us, exact floor is {exact}')


def dfxp_clock_frames(hmax=999):
    """hh:mm:ss:ff  ->  ((h*60+m)*60+s)*10^6 + floor(ff*10^6/30)"""
    from pycaption.dfxp.base import DFXPReader
    fn = DFXPReader._convert_clock_time_to_microseconds
    fd, _, hsh = fplia.function_ast(fn)
    ctx = Ctx()
    H, M, S, F = z3.Ints("H M S F")

    def env(hr, mr, sr, fr_):
        return {"clock_time_match": _FakeMatch({
            "hours": fplia.IntStr(IntV(H, *hr)), "minutes": fplia.IntStr(IntV(M, *mr)),
            "seconds": fplia.IntStr(IntV(S, *sr)), "frames": fplia.IntStr(IntV(F, *fr_)), "sub_frames": None})}
    outs = run_function(ctx, fn, env((0, hmax), (0, 59), (0, 59), (0, 99)))
    pre = [H >= 0, H <= hmax, M >= 0, M <= 59, S >= 0, S <= 59, F >= 0, F <= 99]

    def violated(o):
        if o.kind != "return" or not isinstance(o.value, IntV):
            return z3.BoolVal(True)
        q = o.value.t
        base = ((H * 60 + M) * 60 + S) * 1000000
        return z3.Not(z3.And((q - base) * 30 <= F * 1000000, (q - base + 1) * 30 > F * 1000000))
    st, m, o, wit = decide(ctx, outs, pre, violated)
    fns = [f"pycaption.dfxp.base.DFXPReader._convert_clock_time_to_microseconds#{hsh}"]
    bounds = f"hours 0..{hmax}, minutes/seconds 0..59, frames 0..99 (30 fps); {len(outs)} case paths"
    if st == "unsat":
        w = None
        if wit:
            w = "%02d:%02d:%02d:%02d" % tuple(fplia.model_int(wit[0], x) for x in (H, M, S, F))
        return result("holds", ctx, witness=w, functions=fns, bounds=bounds)
    if st == "unknown":
        return result("inconclusive", ctx, detail="solver unknown", functions=fns, bounds=bounds)
    hv, mv, sv, fv = (fplia.model_int(m, x) for x in (H, M, S, F))
    text = "%02d:%02d:%02d:%02d" % (hv, mv, sv, fv)
    exact = ((hv * 60 + mv) * 60 + sv) * 10**6 + fv * 10**6 // 30
    got = _dfxp_read_start(text)
    return result("violated", ctx, counterexample={"begin": text, "read": got, "exact": exact}, reproduced=(got != exact),
                  replay_code=_DFXP_REPLAY.format(begin=text, exact=exact), functions=fns, bounds=bounds,
                  detail=f'TTML begin="{text}" reads as {got} us, exact floor is {exact}')


def dfxp_clock_fraction(k=3, hmax=99):
    """hh:mm:ss.<k digits>  ->  ((h*60+m)*60+s)*10^6 + floor(fraction * 10^6 / 10^k)"""
    from pycaption.dfxp.base import DFXPReader, TIME_EXPRESSION_PATTERN
    fn = DFXPReader._convert_clock_time_to_microseconds
    fd, _, hsh = fplia.function_ast(fn)
    H, M, S, F = z3.Ints("H M S F")
    top = 10 ** k - 1

    def env(hr, mr, sr, fr_):
        return {"clock_time_match": _FakeMatch({
            "hours": fplia.DigStr(IntV(H, *hr), 2), "minutes": fplia.DigStr(IntV(M, *mr), 2),
            "seconds": fplia.DigStr(IntV(S, *sr), 2), "frames": None, "sub_frames": fplia.DigStr(IntV(F, *fr_), k)})}
    # translator validation: concrete stamps through the real function (real regex match) and through the encoding
    nval = 0
    for hv, mv, sv, fv in ((0, 0, 0, 0), (0, 0, 8, 2 * 10 ** (k - 1)), (0, 0, 33, 3 * 10 ** (k - 1)), (1, 2, 3, min(top, 4)), (hmax, 59, 59, top), (0, 0, 1, 1)):
        c2 = Ctx()
        outs = run_function(c2, fn, env((hv, hv), (mv, mv), (sv, sv), (fv, fv)))
        got = None
        for o in outs:
            if o.kind == "return" and isinstance(o.value, IntV):
                st, mm = c2.check([H == hv, M == mv, S == sv, F == fv] + o.cons)
                if st == "sat":
                    got = fplia.model_int(mm, o.value.t)
                    break
        text = "%02d:%02d:%02d.%0*d" % (hv, mv, sv, k, fv)
        want = fn(TIME_EXPRESSION_PATTERN.search(text))
        if got != want:
            raise AssertionError(f"translator validation failed on {text}: real={want} encoding={got}")
        nval += 1
    ctx = Ctx()
    outs = run_function(ctx, fn, env((0, hmax), (0, 59), (0, 59), (0, top)))
    pre = [H >= 0, H <= hmax, M >= 0, M <= 59, S >= 0, S <= 59, F >= 0, F <= top]

    def violated(o):
        if o.kind != "return" or not isinstance(o.value, IntV):
            return z3.BoolVal(True)
        q = o.value.t
        base = ((H * 60 + M) * 60 + S) * 1000000
        return z3.Not(z3.And((q - base) * 10 ** k <= F * 1000000, (q - base + 1) * 10 ** k > F * 1000000))
    st, m, o, wit = decide(ctx, outs, pre, violated)
    fns = [f"pycaption.dfxp.base.DFXPReader._convert_clock_time_to_microseconds#{hsh}"]
    bounds = f"hh:mm:ss.f with hours 0..{hmax}, minutes/seconds 0..59, all fractions of {k} digits; {len(outs)} case paths; validated on {nval} concrete stamps"
    if st == "unsat":
        w = None
        if wit:
            w = "%02d:%02d:%02d.%0*d" % (fplia.model_int(wit[0], H), fplia.model_int(wit[0], M), fplia.model_int(wit[0], S), k, fplia.model_int(wit[0], F))
        return result("holds", ctx, witness=w, functions=fns, bounds=bounds)
    if st == "unknown":
        return result("inconclusive", ctx, detail="solver unknown", functions=fns, bounds=bounds)
    hv, mv, sv, fv = (fplia.model_int(m, x) for x in (H, M, S, F))
    text = "%02d:%02d:%02d.%0*d" % (hv, mv, sv, k, fv)
    exact = ((hv * 60 + mv) * 60 + sv) * 10**6 + fv * 10**6 // 10 ** k
    got = _dfxp_read_start(text)
    return result("violated", ctx, counterexample={"begin": text, "read": got, "exact": exact}, reproduced=(got != exact),
                  replay_code=_DFXP_REPLAY.format(begin=text, exact=exact), functions=fns, bounds=bounds,
                  detail=f'TTML begin="{text}" reads as {got} us, exact floor is {exact}')


# ---------------------------------------------------------------------------
# MicroDVD through the public read(): the document is concrete except for one frame number, which the
# stub of int() turns into a symbolic integer (everything else runs natively or is inlined from the AST)
# ---------------------------------------------------------------------------
_PLACE = "7770001"


def microdvd_read_public(fps_text="25.0", which="start", nmax=90000000):
    """MicroDVDReader().read(doc) with one symbolic frame number: start/end == floor(n * 10^6 / fps)"""
    from pycaption.microdvd import MicroDVDReader
    import hashlib, inspect
    src = inspect.getsource(MicroDVDReader)
    h = hashlib.sha256(src.encode()).hexdigest()[:12]
    fr = Fr(fps_text)
    a, b = fr.numerator, fr.denominator
    head = "" if fps_text == "25.0" else "{0}{0}%s\n" % fps_text
    n = z3.Int("n")

    def doc_for(num):
        return head + ("{%s}{99999999}x|y\n" % num if which == "start" else "{1}{%s}x|y\n" % num) + "{99999999}{99999999}tail\n"

    def run(lo, hi):
        ctx = Ctx()

        def int_stub(ev, args, kws, cons):
            if len(args) == 1 and args[0] == _PLACE:
                return [(IntV(n, lo, hi), cons)]
            return None  # default handling
        outs = run_function(ctx, MicroDVDReader.read, {"self": MicroDVDReader(), "content": doc_for(_PLACE)}, stubs={int: int_stub})
        return ctx, outs

    def value_of(o):
        if o.kind != "return":
            return None
        caps = o.value.get_captions("und")
        if len(caps) != 2:
            return None
        v = caps[0].start if which == "start" else caps[0].end
        return v if isinstance(v, IntV) else None

    # translator validation: concrete documents through the real reader vs the encoding
    nval = 0
    for nv in (0, 1, 25, 99, 195, 201, 203, 1001, 89999, 12345678, nmax):
        ctx2, outs2 = run(nv, nv)
        got = None
        for o in outs2:
            v = value_of(o)
            if v is None:
                continue
            st, mm = ctx2.check([n == nv] + o.cons)
            if st == "sat":
                got = fplia.model_int(mm, v.t)
                break
        c = MicroDVDReader().read(doc_for(str(nv))).get_captions("und")[0]
        want = c.start if which == "start" else c.end
        if got != want:
            raise AssertionError(f"translator validation failed on frame {nv}: real={want} encoding={got}")
        nval += 1
    ctx, outs = run(0, nmax)
    pre = [n >= 0, n <= nmax]

    def violated(o):
        v = value_of(o)
        if v is None:
            return z3.BoolVal(True)
        q = v.t
        return z3.Not(z3.And(q * a <= n * 10**6 * b, (q + 1) * a > n * 10**6 * b))
    st, m, o, wit = decide(ctx, outs, pre, violated)
    fns = [f"pycaption.microdvd.MicroDVDReader.read (+ inlined helpers)#{h}", "pycaption.base.Caption.__init__", "CaptionSet"]
    bounds = (f"public read() of a 2-cue document, {which} frame of cue 1 symbolic in 0..{nmax}, fps={fps_text}; {len(outs)} case paths; "
              f"validated on {nval} concrete documents")
    if st == "unsat":
        return result("holds", ctx, witness=(f"n={fplia.model_int(wit[0], n)}" if wit else None), functions=fns, bounds=bounds)
    if st == "unknown":
        return result("inconclusive", ctx, detail="solver unknown", functions=fns, bounds=bounds)
    if value_of(o) is None:
        return result("inconclusive", ctx, detail=f"unexpected outcome {o.kind} {getattr(o, 'value', None)!r}", functions=fns, bounds=bounds)
    nv = fplia.model_int(m, n)
    exact = (nv * 10**6 * b) // a
    doc = doc_for(str(nv))
    c = MicroDVDReader().read(doc).get_captions("und")[0]
    got = c.start if which == "start" else c.end
    code = REPLAY_HEAD + f'''from pycaption import MicroDVDReader
doc = {doc!r}
c = MicroDVDReader().read(doc).get_captions("und")[0]
got = c.{which}
exact = {exact}   # floor({nv} * 10**6 / {fps_text})
print("document", repr(doc), "read {which} =", got, "exact =", exact)
sys.exit(1 if got != exact else 0)
'''
    return result("violated", ctx, counterexample={"framenum": nv, "fps": fps_text, "read": got, "exact": exact},
                  reproduced=(got != exact), replay_code=code, functions=fns, bounds=bounds,
                  detail=f"MicroDVD frame {nv} at {fps_text} fps reads as {got} us, exact floor is {exact}")
