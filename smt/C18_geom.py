"""C18 (E4): equality / hash consistency of the geometry value classes, from their ASTs."""
import itertools
import sys
import time

import z3

sys.path[:0] = ["/verif"]
from vlib.ast2euf import Enc, Rec
from smt.common import result


class _Ctx:
    def __init__(self):
        self.queries = 0
        self.solver_s = 0.0

    def check(self, *cons):
        s = z3.Solver()
        s.set("timeout", 60000)
        s.add(*cons)
        t = time.time()
        r = str(s.check())
        self.solver_s += time.time() - t
        self.queries += 1
        return r, (s.model() if r == "sat" else None)


def _builders(enc):
    import pycaption.geometry as g
    US, _ = enc.enum_sort(g.UnitEnum)
    HS, _ = enc.enum_sort(g.HorizontalAlignmentEnum)
    VS, _ = enc.enum_sort(g.VerticalAlignmentEnum)

    def size(p):
        return Rec(g.Size, {"value": z3.Real(p + ".value"), "unit": z3.Const(p + ".unit", US)})

    def point(p):
        return Rec(g.Point, {"x": size(p + ".x"), "y": size(p + ".y")})

    def stretch(p):
        return Rec(g.Stretch, {"horizontal": size(p + ".h"), "vertical": size(p + ".v")})

    def padding(p):
        return Rec(g.Padding, {k: size(p + "." + k) for k in ("before", "after", "start", "end")})

    def alignment(p, hn=False, vn=False):
        return Rec(g.Alignment, {"horizontal": None if hn else z3.Const(p + ".hor", HS),
                                 "vertical": None if vn else z3.Const(p + ".ver", VS)})

    def layout(p, pat):
        o, e, pd, al, wv = pat
        return Rec(g.Layout, {"origin": point(p + ".o") if o else None, "extent": stretch(p + ".e") if e else None,
                              "padding": padding(p + ".p") if pd else None, "alignment": alignment(p + ".a") if al else None,
                              "webvtt_positioning": z3.String(p + ".wv") if wv else None})
    return g, size, point, stretch, padding, alignment, layout


def _same(a, b, skip=("webvtt_positioning",)):
    """reference: structural equality of the geometric components"""
    if a is None or b is None:
        return a is None and b is None
    if isinstance(a, Rec) != isinstance(b, Rec):
        return False
    if isinstance(a, Rec):
        if a.cls is not b.cls:
            return False
        parts = []
        for k in a.fields:
            if k in skip:
                continue
            r = _same(a.fields[k], b.fields[k])
            if r is False:
                return False
            if r is not True:
                parts.append(r)
        return z3.And(*parts) if parts else True
    return a == b


def _z(x):
    return z3.BoolVal(x) if isinstance(x, bool) else x


def eq_hash(kind="all"):
    """eq <=> all geometric components equal; eq => equal hashes; eq symmetric - for every class and None pattern"""
    enc = Enc()
    g, size, point, stretch, padding, alignment, layout = _builders(enc)
    ctx = _Ctx()
    pairs = []
    pairs.append(("Size", size("a"), size("b")))
    pairs.append(("Point", point("a"), point("b")))
    pairs.append(("Stretch", stretch("a"), stretch("b")))
    pairs.append(("Padding", padding("a"), padding("b")))
    for ha, va, hb, vb in itertools.product((False, True), repeat=4):
        if (ha and va) or (hb and vb):
            continue  # Alignment with neither component is never constructed by the factories
        pairs.append((f"Alignment[{ha}{va}|{hb}{vb}]", alignment("a", ha, va), alignment("b", hb, vb)))
    pats = list(itertools.product((False, True), repeat=5))
    for pa in pats:
        for pb in pats:
            pairs.append((f"Layout[{pa}|{pb}]", layout("a", pa), layout("b", pb)))
    pairs.append(("Point/Stretch", point("a"), stretch("b")))
    pairs.append(("Size/None", size("a"), None))
    witness = None
    for name, a, b in pairs:
        e_ab = _z(enc.eq(a, b))
        e_ba = _z(enc.eq(b, a)) if b is not None else e_ab
        ref = _z(_same(a, b))
        st, m = ctx.check(e_ab != ref)
        if st != "unsat":
            return _report(ctx, name, "__eq__ differs from component-wise equality", st, m, a, b)
        st, m = ctx.check(e_ab != e_ba)
        if st != "unsat":
            return _report(ctx, name, "__eq__ is not symmetric", st, m, a, b)
        if b is not None and a.cls is b.cls:
            st, m = ctx.check(e_ab, enc.hash(a) != enc.hash(b))
            if st != "unsat":
                return _report(ctx, name, "equal values with different hashes", st, m, a, b)
        if witness is None:
            st, m = ctx.check(e_ab)
            if st == "sat":
                witness = f"{name}: an equal pair exists, e.g. {str(m)[:120]}"
    fns = ["pycaption.geometry." + c + "." + m for c in ("Size", "Point", "Stretch", "Padding", "Alignment", "Layout")
           for m in ("__eq__", "__hash__", "__bool__")]
    return result("holds", ctx, witness=witness, functions=fns,
                  bounds=f"{len(pairs)} class / None-pattern pairs; values over the reals (no NaN), units and alignments over their enums, "
                         "hash of leaves uninterpreted; loop-free, no unrolling bound")


def _report(ctx, name, what, st, m, a, b):
    if st != "sat":
        return result("inconclusive", ctx, detail=f"{name}: solver {st} on '{what}'")
    # concretise the model on the real classes
    import pycaption.geometry as g

    def build(r):
        if r is None:
            return None
        if not isinstance(r, Rec):
            v = m.eval(r, model_completion=True)
            if z3.is_rational_value(v) or z3.is_algebraic_value(v):
                return float(v.numerator_as_long()) / float(v.denominator_as_long())
            if z3.is_string_value(v):
                return v.as_string()
            s = str(v)
            for e in (g.UnitEnum, g.HorizontalAlignmentEnum, g.VerticalAlignmentEnum):
                if s in e.__members__:
                    return e[s]
            return s
        kw = {k: build(v) for k, v in r.fields.items()}
        if r.cls is g.Size:
            return g.Size(kw["value"], kw["unit"])
        if r.cls is g.Point:
            return g.Point(kw["x"], kw["y"])
        if r.cls is g.Stretch:
            return g.Stretch(kw["horizontal"], kw["vertical"])
        if r.cls is g.Padding:
            return g.Padding(**kw)
        if r.cls is g.Alignment:
            return g.Alignment(kw["horizontal"], kw["vertical"])
        return g.Layout(**kw)
    ca, cb = build(a), build(b)
    real_eq = bool(ca == cb)
    real_sym = bool(cb == ca) if cb is not None else real_eq
    same_ser = (ca.serialized() == cb.serialized()) if (cb is not None and type(ca) is type(cb)) else False
    bad = (real_eq != same_ser) or (real_eq != real_sym) or (real_eq and hash(ca) != hash(cb))
    code = ("import sys\nfrom pycaption.geometry import *\n"
            f"a = {_ctor(ca)}\nb = {_ctor(cb)}\n"
            "eq = bool(a == b); sym = bool(b == a) if b is not None else eq\n"
            "same = (b is not None and type(a) is type(b) and a.serialized() == b.serialized())\n"
            "print('a == b:', eq, ' b == a:', sym, ' components equal:', same, ' hashes equal:', b is not None and hash(a) == hash(b))\n"
            "sys.exit(1 if (eq != same or eq != sym or (eq and hash(a) != hash(b))) else 0)\n")
    return result("violated", ctx, counterexample={"case": name, "what": what, "a": repr(ca), "b": repr(cb)}, reproduced=bad,
                  replay_code=code, detail=f"{name}: {what}: a={ca!r} b={cb!r}")


def _ctor(o):
    import pycaption.geometry as g
    if o is None:
        return "None"
    if isinstance(o, g.Size):
        return f"Size({o.value!r}, UnitEnum.{o.unit.name})"
    if isinstance(o, g.Point):
        return f"Point({_ctor(o.x)}, {_ctor(o.y)})"
    if isinstance(o, g.Stretch):
        return f"Stretch({_ctor(o.horizontal)}, {_ctor(o.vertical)})"
    if isinstance(o, g.Padding):
        return f"Padding({_ctor(o.before)}, {_ctor(o.after)}, {_ctor(o.start)}, {_ctor(o.end)})"
    if isinstance(o, g.Alignment):
        h = f"HorizontalAlignmentEnum.{o.horizontal.name}" if o.horizontal else "None"
        v = f"VerticalAlignmentEnum.{o.vertical.name}" if o.vertical else "None"
        return f"Alignment({h}, {v})"
    if isinstance(o, g.Layout):
        return (f"Layout(origin={_ctor(o.origin)}, extent={_ctor(o.extent)}, padding={_ctor(o.padding)}, "
                f"alignment={_ctor(o.alignment)}, webvtt_positioning={o.webvtt_positioning!r})")
    return repr(o)


def size_grammar(maxlen=12):
    """the pattern Size.from_string compiles == reference grammar (D+(.D+)?(px|em|%|c|pt))|0 over the statement's alphabet"""
    import pycaption.geometry as g
    from vlib import re2smt
    ctx = _Ctx()
    pats = re2smt.capture_compiled(g, lambda: g.Size.from_string("1px"))
    if len(pats) != 1:
        return result("inconclusive", ctx, detail=f"expected one compiled pattern in Size.from_string, saw {pats!r}")
    L = re2smt.language(pats[0])
    D = z3.Plus(z3.Range("0", "9"))
    REF = z3.Union(z3.Concat(D, z3.Option(z3.Concat(z3.Re("."), D)), z3.Union(*[z3.Re(u) for u in ("px", "em", "%", "c", "pt")])), z3.Re("0"))
    ALPHA = z3.Star(z3.Union(z3.Range("0", "9"), *[z3.Re(c) for c in ".+-eEpxm%ct "]))
    s = z3.String("s")
    base = [z3.InRe(s, ALPHA), z3.Length(s) <= maxlen]
    wit = None
    st, m = ctx.check(*base, z3.InRe(s, L), z3.InRe(s, REF), z3.Length(s) >= 4)
    if st == "sat":
        wit = "accepted by both: " + m[s].as_string()
    for name, a, b in (("accepted by the code but not a size", L, REF), ("a valid size rejected by the code", REF, L)):
        st, m = ctx.check(*base, z3.InRe(s, a), z3.Not(z3.InRe(s, b)))
        if st == "sat":
            text = m[s].as_string()
            from pycaption.exceptions import CaptionReadSyntaxError
            try:
                g.Size.from_string(text)
                accepted = True
            except CaptionReadSyntaxError:
                accepted = False
            import re as _re
            ref_ok = bool(_re.fullmatch(r"(\d+(\.\d+)?(px|em|%|c|pt))|0", text, _re.A))
            code = ("import sys, re\nfrom pycaption.geometry import Size\nfrom pycaption.exceptions import CaptionReadSyntaxError\n"
                    f"text = {text!r}\n"
                    "try:\n    Size.from_string(text); acc = True\nexcept CaptionReadSyntaxError:\n    acc = False\n"
                    "ref = bool(re.fullmatch(r'(\\d+(\\.\\d+)?(px|em|%|c|pt))|0', text, re.A))\n"
                    "print(repr(text), 'accepted by Size.from_string:', acc, ' is a size per the grammar:', ref)\nsys.exit(1 if acc != ref else 0)\n")
            return result("violated", ctx, counterexample={"string": text, "what": name}, reproduced=(accepted != ref_ok), replay_code=code,
                          detail=f"{name}: {text!r}")
        if st != "unsat":
            return result("inconclusive", ctx, detail=f"solver {st}")
    return result("holds", ctx, witness=wit, functions=["pycaption.geometry.Size.from_string (compiled pattern " + repr(pats[0]) + ")"],
                  bounds=f"all strings of length <= {maxlen} over digits . + - e E p x m % c t space")
