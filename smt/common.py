"""Shared helpers for the direct-SMT obligations (E2/E3/E4)."""
import sys
import time

import z3

sys.path[:0] = ["/verif"]
from vlib import fplia  # noqa: E402


def decide(ctx, outcomes, pre, violated):
    """outcomes: fplia.Outcome list.  violated(o) -> z3 Bool (negated property on this path) or None.
    Returns (status, model, outcome, witness_model)."""
    witness = None
    for o in outcomes:
        base = list(pre) + list(o.cons)
        neg = violated(o)
        if neg is None:
            continue
        st, m = ctx.check(base + [neg])
        if st == "sat":
            return "sat", m, o, witness
        if st != "unsat":
            return "unknown", None, o, witness
        if witness is None:
            st2, m2 = ctx.check(base)
            if st2 == "sat":
                witness = (m2, o)
    return "unsat", None, None, witness


def result(status, ctx, *, detail="", witness=None, counterexample=None, reproduced=None, replay_code=None,
           functions=(), bounds=""):
    return dict(status=status, queries=ctx.queries, solver_s=ctx.solver_s, detail=detail, witness=witness,
                counterexample=counterexample, reproduced=reproduced, replay_code=replay_code,
                functions=list(functions), bounds=bounds)


REPLAY_HEAD = '''"""Replay of an SMT counterexample on the real code through the public API. exit 1 = reproduced."""
import sys
'''
