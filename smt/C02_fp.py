"""C02 float kernels (E2): MicroDVD microseconds -> frames."""
import sys

import z3

sys.path[:0] = ["/verif"]
from vlib import fplia
from vlib.fplia import Ctx, IntV, run_function
from smt.common import decide, result, REPLAY_HEAD


def microdvd_write(umax=86400000000 - 1):
    """int(micro * 25.0 / 10**6) == micro * 25 // 10**6 for all 0 <= micro <= umax"""
    from pycaption.microdvd import MicroDVDWriter
    fn = MicroDVDWriter._microtoframes
    fd, _, h = fplia.function_ast(fn)
    # translator validation
    u = z3.Int("u")
    nval = 0
    for uv in (0, 1, 39999, 40000, 40001, 79999, 80000, 999999, 1000000, 8039999, 8040000, 12345678901, umax):
        c2 = Ctx()
        outs = run_function(c2, fn, {"self": None, "micro": IntV(u, uv, uv)})
        got = None
        for o in outs:
            st, m = c2.check([u == uv] + o.cons)
            if st == "sat":
                got = fplia.model_int(m, o.value.t)
                break
        want = fn(None, uv)
        if got != want:
            raise AssertionError(f"translator validation failed: _microtoframes({uv}) real={want} encoding={got}")
        nval += 1
    ctx = Ctx()
    outs = run_function(ctx, fn, {"self": None, "micro": IntV(u, 0, umax)})
    pre = [u >= 0, u <= umax]

    def violated(o):
        if o.kind != "return" or not isinstance(o.value, IntV):
            return z3.BoolVal(True)
        q = o.value.t
        return z3.Not(z3.And(q * 1000000 <= u * 25, (q + 1) * 1000000 > u * 25))
    st, m, o, wit = decide(ctx, outs, pre, violated)
    fns = [f"pycaption.microdvd.MicroDVDWriter._microtoframes#{h}"]
    bounds = f"all integer instants 0..{umax} us at 25 fps; {len(outs)} case paths; translator validated on {nval} inputs"
    if st == "unsat":
        return result("holds", ctx, witness=(f"us={fplia.model_int(wit[0], u)}" if wit else None), functions=fns, bounds=bounds)
    if st == "unknown":
        return result("inconclusive", ctx, detail="solver unknown", functions=fns, bounds=bounds)
    uv = fplia.model_int(m, u)
    exact = uv * 25 // 10**6
    from pycaption.base import Caption, CaptionNode, CaptionSet, CaptionList
    out = MicroDVDWriter().write(CaptionSet({"en": CaptionList([Caption(uv, uv + 4000000, [CaptionNode.create_text("x")])])}))
    got = int(out[1:out.index("}")])
    code = REPLAY_HEAD + f'''from pycaption import MicroDVDWriter
from pycaption.base import Caption, CaptionNode, CaptionSet, CaptionList
out = MicroDVDWriter().write(CaptionSet({{"en": CaptionList([Caption({uv}, {uv + 4000000}, [CaptionNode.create_text("x")])])}}))
print(repr(out), "exact start frame", {exact})
sys.exit(1 if int(out[1:out.index("}}")]) != {exact} else 0)
'''
    return result("violated", ctx, counterexample={"us": uv, "written": got, "exact": exact}, reproduced=(got != exact),
                  replay_code=code, functions=fns, bounds=bounds,
                  detail=f"MicroDVD writer puts {uv} us in frame {got}, exact is {exact}")
