"""C13 float kernels (E2): Size.as_percentage_of and Layout.fit_to_screen, evaluated from their ASTs
(constructors and operator methods of the geometry classes are inlined from the AST as well)."""
import sys
from fractions import Fraction as Fr

import z3

sys.path[:0] = ["/verif"]
from vlib import fplia
from vlib.fplia import Ctx, IntV, RatV, DecStr, run_function, rounds
from smt.common import decide, result, REPLAY_HEAD
from pycaption.geometry import Size, Point, Stretch, Padding, Layout, UnitEnum


def _relativize(text, unit, w, h):
    return Size(text, unit).as_percentage_of(video_width=w, video_height=h)


FACTOR = {"px": Fr(1), "em": Fr(16), "pt": Fr(4, 3)}


def relativize(unit="px", k=2, dims=(1, 320, 360, 480, 576, 640, 720, 1080, 1280, 1920, 3840, 997), pmax=10**6 - 1):
    """Size(p/10^k, unit).as_percentage_of(dim) is within 2^-30 + 2^-48 relative of p/10^k * f_unit * 100 / dim, in percent"""
    import hashlib, inspect
    h = hashlib.sha256(inspect.getsource(Size.as_percentage_of).encode()).hexdigest()[:12]
    u = UnitEnum(unit)
    p = z3.Int("p")
    ctx = Ctx()
    total_paths = 0
    witness = None
    cases = []
    if unit == "c":
        cases = [("width", 640, None, Fr(100, 32)), ("height", None, 360, Fr(100, 15))]
    else:
        for d in dims:
            cases.append(("width", d, None, FACTOR[unit] * 100 / d))
            cases.append(("height", None, d, FACTOR[unit] * 100 / d))
    # translator validation
    nval = 0
    for axis, w, hh, _ in cases[:4]:
        for pv in (0, 1, 50, 12345, 99999, pmax):
            c2 = Ctx()
            outs = run_function(c2, _relativize, {"text": DecStr(IntV(p, pv, pv), k), "unit": u, "w": w, "h": hh})
            got = None
            for o in outs:
                st, mm = c2.check([p == pv] + o.cons)
                if st == "sat" and o.kind == "return":
                    v = o.value.value
                    got = Fr(fplia.model_int(mm, v.P) if not isinstance(v.P, int) else v.P, v.Q)
                    break
            text = (f"{pv // 10**k}.{pv % 10**k:0{k}d}" if k else str(pv))
            want = Size(text, u).as_percentage_of(video_width=w, video_height=hh).value
            if got is None or float(got) != want or Fr(want) != got:
                raise AssertionError(f"translator validation failed: Size({text}{unit}).as_percentage_of({w},{hh}) real={want!r} encoding={got}")
            nval += 1
    for axis, w, hh, fac in cases:
        outs = run_function(ctx, _relativize, {"text": DecStr(IntV(p, 0, pmax), k), "unit": u, "w": w, "h": hh})
        total_paths += len(outs)
        pre = [p >= 0, p <= pmax]

        def violated(o, fac=fac):
            if o.kind != "return" or not isinstance(getattr(o.value, "value", None), RatV):
                return z3.BoolVal(True)
            if o.value.unit is not UnitEnum.PERCENT:
                return z3.BoolVal(True)
            v = o.value.value
            # |v - p*fac/10^k| <= 2^-30   with v = P/Q, fac = a/b
            a, b = fac.numerator, fac.denominator
            L = v.P * (10**k) * b - p * a * v.Q          # (v - exact) * Q*10^k*b
            bound = v.Q * (10**k) * b                     # 1 * that scale
            # tolerance 2^-30 absolute plus 2^-48 relative (three roundings of doubles)
            tol = bound * 2**18 + p * a * v.Q
            return z3.Or(L * 2**48 > tol, L * 2**48 < -tol)
        st, m, o, wit = decide(ctx, outs, pre, violated)
        if witness is None and wit:
            witness = f"{axis} dim={w or hh}: p={fplia.model_int(wit[0], p)}"
        if st == "unknown":
            return result("inconclusive", ctx, detail="solver unknown")
        if st == "sat":
            pv = fplia.model_int(m, p)
            text = (f"{pv // 10**k}.{pv % 10**k:0{k}d}" if k else str(pv))
            try:
                got = Size(text, u).as_percentage_of(video_width=w, video_height=hh)
                gv, gu = got.value, got.unit.value
            except Exception as e:
                gv, gu = repr(e), "?"
            exact = Fr(pv, 10**k) * fac
            bad = not (gu == "%" and isinstance(gv, float) and abs(Fr(gv) - exact) <= Fr(1, 2**30) + exact / 2**48)
            code = REPLAY_HEAD + f'''from fractions import Fraction
from pycaption.geometry import Size, UnitEnum
s = Size({text!r}, UnitEnum({unit!r})).as_percentage_of(video_width={w!r}, video_height={hh!r})
exact = Fraction({exact.numerator}, {exact.denominator})
print("Size({text}{unit}) relative to", {w!r}, {hh!r}, "->", s, repr(s.value), "exact", float(exact))
sys.exit(1 if (s.unit.value != "%" or abs(Fraction(s.value) - exact) > Fraction(1, 2**30) + exact / 2**48) else 0)
'''
            return result("violated", ctx, counterexample={"size": text + unit, "width": w, "height": hh, "got": str(gv) + gu, "exact": float(exact)},
                          reproduced=bad, replay_code=code, detail=f"Size({text}{unit}).as_percentage_of(width={w}, height={hh}) = {gv}{gu}, exact {float(exact)}%")
    return result("holds", ctx, witness=witness, functions=[f"pycaption.geometry.Size.as_percentage_of#{h}", "Size.__init__"],
                  bounds=f"unit {unit}, values p/10^{k} with p <= {pmax}, {len(cases)} (axis, dimension) cases, {total_paths} case paths; validated on {nval} inputs")


# ---------------------------------------------------------------------------
def _fit(x, y, w, h, has_extent):
    origin = Point(Size(x, UnitEnum.PERCENT), Size(y, UnitEnum.PERCENT))
    extent = Stretch(Size(w, UnitEnum.PERCENT), Size(h, UnitEnum.PERCENT)) if has_extent else None
    return Layout(origin=origin, extent=extent).fit_to_screen()


def _double_in_binade(name, e):
    m = z3.Int(name)
    t = e - 52
    lo, hi = Fr(2) ** e, Fr(2) ** (e + 1)
    if t >= 0:
        v = RatV(m * 2**t, 1, lo, hi, True)
    else:
        v = RatV(m, 2 ** (-t), lo, hi, True)
    return m, v, [m >= 2**52, m < 2**53]


def fit_to_screen(axis="x"):
    """for every double origin in the safe area and every double extent in [2^-7, 128) or absent:
    origin + extent' <= edge (+2^-40), a missing extent reaches the edge, a fitting extent is unchanged"""
    import hashlib, inspect
    hsh = hashlib.sha256(inspect.getsource(Layout.fit_to_screen).encode()).hexdigest()[:12]
    ctx = Ctx()
    edge = 90 if axis == "x" else 95
    lo_o, hi_o = (10, 90) if axis == "x" else (5, 95)
    obin = [e for e in range(2, 7) if Fr(2) ** (e + 1) > lo_o and Fr(2) ** e < hi_o]
    witness = None
    paths = 0
    for has_extent in (False, True):
        for eo in obin:
            mo, vo, co = _double_in_binade("mo", eo)
            for ee in (range(-7, 7) if has_extent else [0]):
                me, ve, ce = _double_in_binade("me", ee)
                pre = co + ce + [vo.P * 1 >= lo_o * vo.Q, vo.P * 1 < hi_o * vo.Q]
                if axis == "x":
                    env = {"x": vo, "y": 50.0, "w": ve, "h": 10.0, "has_extent": has_extent}
                else:
                    env = {"x": 50.0, "y": vo, "w": 10.0, "h": ve, "has_extent": has_extent}
                outs = run_function(ctx, _fit, env)
                paths += len(outs)

                def violated(o):
                    if o.kind != "return" or o.value.extent is None:
                        return z3.BoolVal(True)
                    ext = o.value.extent.horizontal if axis == "x" else o.value.extent.vertical
                    org = o.value.origin.x if axis == "x" else o.value.origin.y
                    r = fplia.to_rat(ext.value)
                    og = fplia.to_rat(org.value)
                    # S = origin + extent' - edge, scaled by r.Q*og.Q
                    S = og.P * r.Q + r.P * og.Q - edge * og.Q * r.Q
                    scale = og.Q * r.Q
                    too_far = S * 2**40 > scale
                    bad = [too_far, og.P * vo.Q != vo.P * og.Q]  # origin must be kept
                    if not has_extent:
                        bad.append(S * 2**40 < -scale)  # must reach the edge
                    else:
                        fits = vo.P * ve.Q + ve.P * vo.Q <= edge * vo.Q * ve.Q
                        bad.append(z3.And(fits, r.P * ve.Q != ve.P * r.Q))  # fitting extent unchanged
                    return z3.Or(*bad)
                st, m, o, wit = decide(ctx, outs, pre, violated)
                if witness is None and wit:
                    witness = f"origin binade 2^{eo}, extent {'binade 2^%d' % ee if has_extent else 'absent'}"
                if st == "unknown":
                    return result("inconclusive", ctx, detail="solver unknown")
                if st == "sat":
                    ov = Fr(fplia.model_int(m, mo)) * Fr(2) ** (eo - 52)
                    evv = Fr(fplia.model_int(m, me)) * Fr(2) ** (ee - 52)
                    args = (float(ov), 50.0, float(evv), 10.0) if axis == "x" else (50.0, float(ov), 10.0, float(evv))
                    lay = _fit(*args, has_extent)
                    gx = lay.origin.x.value if axis == "x" else lay.origin.y.value
                    gw = lay.extent.horizontal.value if axis == "x" else lay.extent.vertical.value
                    bad = Fr(gx) + Fr(gw) > edge + Fr(1, 2**40) or (not has_extent and Fr(gx) + Fr(gw) < edge - Fr(1, 2**40)) or \
                        (has_extent and ov + evv <= edge and gw != float(evv)) or gx != float(ov)
                    code = REPLAY_HEAD + f'''from fractions import Fraction
from pycaption.geometry import Size, Point, Stretch, Layout, UnitEnum
P = UnitEnum.PERCENT
x, y, w, h = {args!r}
lay = Layout(origin=Point(Size(x, P), Size(y, P)), extent={'Stretch(Size(w, P), Size(h, P))' if has_extent else 'None'}).fit_to_screen()
o = lay.origin.{'x' if axis == 'x' else 'y'}.value; e = lay.extent.{'horizontal' if axis == 'x' else 'vertical'}.value
print("origin", o, "extent", e, "sum", o + e, "edge", {edge})
bad = Fraction(o) + Fraction(e) > {edge} + Fraction(1, 2**40)
bad = bad or ({not has_extent} and Fraction(o) + Fraction(e) < {edge} - Fraction(1, 2**40))
bad = bad or ({has_extent} and Fraction({args[0] if axis == 'x' else args[1]!r}) + Fraction({args[2] if axis == 'x' else args[3]!r}) <= {edge} and e != {args[2] if axis == 'x' else args[3]!r})
sys.exit(1 if bad else 0)
'''
                    return result("violated", ctx, counterexample={"axis": axis, "origin": float(ov), "extent": float(evv) if has_extent else None,
                                                                   "result_origin": gx, "result_extent": gw},
                                  reproduced=bool(bad), replay_code=code,
                                  detail=f"fit_to_screen {axis}: origin {float(ov)} extent {float(evv) if has_extent else None} -> origin {gx} extent {gw} (edge {edge})")
    return result("holds", ctx, witness=witness, functions=[f"pycaption.geometry.Layout.fit_to_screen#{hsh}", "Point.add_stretch", "Size.__add__", "Size.__init__"],
                  bounds=f"axis {axis}: every double origin in [{lo_o},{hi_o}), every double extent in [2^-7, 128) or absent; {paths} case paths")
