"""C01 (E3): the regular expressions the readers compile accept every timestamp spelling of the reference grammars
(language inclusion decided by z3 over all strings up to a length bound)."""
import sys
import time

import z3

sys.path[:0] = ["/verif"]
from vlib import re2smt
from smt.common import result


class _C:
    queries = 0
    solver_s = 0.0

    def check(self, *cons):
        s = z3.Solver()
        s.set("timeout", 120000)
        s.add(*cons)
        t = time.time()
        r = str(s.check())
        self.solver_s += time.time() - t
        self.queries += 1
        return r, (s.model() if r == "sat" else None)


D = z3.Range("0", "9")
D2 = z3.Concat(D, D)
DP = z3.Plus(D)


def _lit(t):
    return z3.Re(t)


def _included(ctx, name, ref, lang, maxlen, real_accepts):
    s = z3.String("s")
    st, m = ctx.check(z3.Length(s) <= maxlen, z3.InRe(s, ref), z3.Not(z3.InRe(s, lang)))
    if st == "unsat":
        return None
    if st != "sat":
        return ("inconclusive", f"{name}: solver {st}", None)
    text = m[s].as_string()
    return ("violated", f"{name}: reference spelling {text!r} is not accepted by the pattern", (text, real_accepts(text)))


def timestamp_grammars(maxlen=24):
    import pycaption.webvtt as w
    import pycaption.dfxp.base as d
    import re
    ctx = _C()
    ANY = z3.Star(re2smt.ALL)
    cases = []
    # WebVTT: [H+:]MM:SS.mmm  (pattern is anchored at the start only: the reader uses search on a token)
    vtt_ref = z3.Concat(z3.Option(z3.Concat(DP, _lit(":"))), D2, _lit(":"), D2, _lit("."), D, D, D)
    vtt_lang = z3.Concat(re2smt.language(w.TIMESTAMP_PATTERN.pattern), ANY)
    cases.append(("WebVTT timestamp", vtt_ref, vtt_lang, lambda t: w.TIMESTAMP_PATTERN.search(t) is not None))
    # WebVTT timing line: start ws+ --> ws+ end (ws+ settings)?
    ws = z3.Plus(z3.Union(_lit(" "), _lit("\t")))
    setting = z3.Plus(z3.Union(z3.Range("a", "z"), z3.Range("0", "9"), _lit(":"), _lit("%"), _lit(","), _lit("-")))
    line_ref = z3.Concat(vtt_ref, ws, _lit("-->"), ws, vtt_ref, z3.Option(z3.Concat(ws, setting, z3.Star(z3.Concat(ws, setting)))))
    cases.append(("WebVTT timing line", line_ref, re2smt.language(w.TIMING_LINE_PATTERN.pattern), lambda t: w.TIMING_LINE_PATTERN.search(t) is not None))
    # TTML clock-time H{2,}:MM:SS(.D+|:FF)?  and offset-time D+(.D+)?(h|m|s|ms|f)
    clock = z3.Concat(D, DP, _lit(":"), D2, _lit(":"), D2, z3.Option(z3.Union(z3.Concat(_lit("."), DP), z3.Concat(_lit(":"), D2))))
    offset = z3.Concat(DP, z3.Option(z3.Concat(_lit("."), DP)), z3.Union(*[_lit(u) for u in ("h", "m", "s", "ms", "f")]))
    ttml_lang = re2smt.language(d.TIME_EXPRESSION_PATTERN.pattern)
    cases.append(("TTML clock-time", clock, ttml_lang, lambda t: d.TIME_EXPRESSION_PATTERN.search(t) is not None))
    cases.append(("TTML offset-time", offset, ttml_lang, lambda t: d.TIME_EXPRESSION_PATTERN.search(t) is not None))
    # and nothing but time expressions (plus the tick metric the reader refuses explicitly) is accepted by the anchored TTML pattern
    ttml_all = z3.Union(z3.Concat(DP, _lit(":"), D2, _lit(":"), D2, z3.Option(z3.Union(z3.Concat(_lit("."), DP), z3.Concat(_lit(":"), D2)))),
                        z3.Concat(DP, z3.Option(z3.Concat(_lit("."), DP)), z3.Union(*[_lit(u) for u in ("h", "m", "s", "ms", "f", "t")])))
    cases.append(("TTML pattern accepts time expressions only", ttml_lang, ttml_all, lambda t: True))
    # MicroDVD {D+}{D+}text
    md_pats = re2smt.capture_compiled(__import__("pycaption.microdvd", fromlist=["x"]), lambda: __import__("pycaption").MicroDVDReader().detect("{1}{2}x"))
    md_ref = z3.Concat(_lit("{"), DP, _lit("}"), _lit("{"), DP, _lit("}"), z3.Star(z3.Intersect(re2smt.ALL, z3.Complement(_lit("\n")))))
    md_lang = z3.Concat(re2smt.language(r"{(\d+)}{(\d+)}(.*)"), ANY)
    cases.append(("MicroDVD line", md_ref, md_lang, lambda t: re.match(r"{(\d+)}{(\d+)}(.*)", t) is not None))
    wit = None
    for name, ref, lang, real in cases:
        r = _included(ctx, name, ref, lang, maxlen, real)
        if r is None:
            if wit is None:
                s = z3.String("s")
                st, m = ctx.check(z3.Length(s) <= maxlen, z3.Length(s) >= 8, z3.InRe(s, ref))
                if st == "sat":
                    wit = f"{name}: e.g. {m[s].as_string()!r}"
            continue
        kind, detail, cex = r
        if kind == "inconclusive":
            return result("inconclusive", ctx, detail=detail)
        text, accepted = cex
        code = ("import sys, re\nimport pycaption.webvtt as w, pycaption.dfxp.base as d\n"
                f"t = {text!r}\nprint(repr(t), 'webvtt stamp:', bool(w.TIMESTAMP_PATTERN.search(t)), 'timing line:', bool(w.TIMING_LINE_PATTERN.search(t)), "
                "'ttml:', bool(d.TIME_EXPRESSION_PATTERN.search(t)))\nsys.exit(1)\n")
        return result("violated", ctx, counterexample={"string": text, "case": name}, reproduced=(not accepted), replay_code=code, detail=detail)
    return result("holds", ctx, witness=wit,
                  functions=["pycaption.webvtt.TIMESTAMP_PATTERN", "TIMING_LINE_PATTERN", "pycaption.dfxp.base.TIME_EXPRESSION_PATTERN (CLOCK_TIME_PATTERN, OFFSET_TIME_PATTERN)", "MicroDVD line pattern"],
                  bounds=f"all strings of length <= {maxlen}; ASCII digits; {len(cases)} inclusion queries")
