"""C06 (E2): _SccTimeTranslator._translate_time from its AST - exact IEEE-754 arithmetic of the timecode ->
microseconds conversion, for every timecode field value, frame count, offset, drop / non-drop."""
import re
import sys
from fractions import Fraction as Fr

import z3

sys.path[:0] = ["/verif"]
from vlib import fplia
from vlib.fplia import Ctx, IntV, IntStr, RatV, run_function
from smt.common import decide, result, REPLAY_HEAD


class SymStamp:
    """models the str 'HH:MM:SS[:;]F' for exactly the operations _translate_time performs on it"""

    def __init__(self, fields, drop):
        self.fields = fields  # four IntV
        self.drop = drop

    def __contains__(self, ch):
        return (ch == ";") == self.drop if ch in (";",) else (ch == ":")

    def replace(self, a, b):
        return self

    def split(self, sep):
        return [IntStr(v) for v in self.fields]


def _match_stub(ev, args, kws, cons):
    if len(args) >= 2 and isinstance(args[1], SymStamp):
        return [(True, cons)]  # the shape check is the grammar's business (E1 obligations run the real regex)
    return None


def translate_time(drop=False, hmax=99, fmax=120, offmax=3600, with_offset=True, offmin=0):
    """|_translate_time(HH:MM:SS:F, offset) - max(0, exact)| <= 2^-10 us, exact = (3600H+60M+S+F/30) * r * 10^6 - offset"""
    from pycaption.scc import _SccTimeTranslator
    fn = _SccTimeTranslator._translate_time
    fd, _, hsh = fplia.function_ast(fn)
    H, M, S, F, O = z3.Ints("H M S F O")

    def env(hr, mr, sr, fr_, orr):
        st = SymStamp([IntV(H, *hr), IntV(M, *mr), IntV(S, *sr), IntV(F, *fr_)], drop)
        if with_offset and orr[0] == orr[1]:
            return {"stamp": st, "offset": orr[0] * 10**6}
        return {"stamp": st, "offset": (IntV(O, orr[0] * 10**6, orr[1] * 10**6) if with_offset else 0)}
    stubs = {re.match: _match_stub}
    # translator validation on concrete timecodes
    nval = 0
    for (h, m, s, f, o) in ((0, 0, 0, 0, 0), (0, 0, 1, 0, 0), (1, 2, 3, 4, 0), (0, 59, 59, 29, 10), (10, 0, 0, 105, 3), (hmax, 59, 59, fmax, 0), (0, 0, 2, 0, 5)):
        if not with_offset and o:
            continue
        c2 = Ctx()
        outs = run_function(c2, fn, env((h, h), (m, m), (s, s), (f, f), (o, o)), stubs)
        got = None
        for oc in outs:
            if oc.kind != "return":
                continue
            st, mm = c2.check([H == h, M == m, S == s, F == f, O == o * 10**6] + oc.cons)
            if st == "sat":
                v = fplia.to_rat(oc.value) if not isinstance(oc.value, (int, float)) else None
                got = Fr(oc.value) if v is None else Fr(fplia.model_int(mm, v.P) if not isinstance(v.P, int) else v.P, v.Q)
                break
        stamp = "%02d:%02d:%02d%s%d" % (h, m, s, ";" if drop else ":", f)
        want = fn(stamp, o * 10**6)
        if got is None or Fr(want) != got:
            raise AssertionError(f"translator validation failed on {stamp} offset {o}s: real={want!r} encoding={got}")
        nval += 1
    ctx = Ctx()
    outs = run_function(ctx, fn, env((0, hmax), (0, 59), (0, 59), (0, fmax), (offmin, offmax)), stubs)
    pre = [H >= 0, H <= hmax, M >= 0, M <= 59, S >= 0, S <= 59, F >= 0, F <= fmax]
    if with_offset:
        pre += [O >= offmin * 10**6, O <= offmax * 10**6, O % 1000000 == 0]
    num, den = (1, 1) if drop else (1001, 1000)

    def violated(o):
        if o.kind != "return":
            return z3.BoolVal(True)
        # exact*30*den = (30*(3600H+60M+S)+F) * num * 10^6 - O*30*den
        E = (30 * (3600 * H + 60 * M + S) + F) * num * 10**6 - (O if with_offset else 0) * 30 * den
        K = 30 * den
        if isinstance(o.value, (int, float)):
            P, Q = z3.IntVal(Fr(o.value).numerator), Fr(o.value).denominator
        else:
            v = fplia.to_rat(o.value)
            P, Q = v.P, v.Q
        # want = max(0, E/K);  |P/Q - want| <= 2^-10
        d_pos = P * K - E * Q          # (P/Q - E/K) * Q*K
        bound = Q * K                   # 1 * Q*K
        ok_pos = z3.And(E >= 0, d_pos * 1024 <= bound, d_pos * 1024 >= -bound)
        ok_neg = z3.And(E < 0, P == 0)
        return z3.Not(z3.Or(ok_pos, ok_neg))
    st, m, o, wit = decide(ctx, outs, pre, violated)
    fns = [f"pycaption.scc._SccTimeTranslator._translate_time#{hsh}"]
    bounds = (f"{'drop-frame' if drop else 'non-drop-frame'} timecodes HH<= {hmax}, MM, SS < 60, frame field 0..{fmax} (line timecode + words sent), "
              f"offset {('%d..%d s' % (offmin, offmax)) if with_offset else 'absent'}; {len(outs)} case paths; validated on {nval} concrete timecodes")
    if st == "unsat":
        w = None
        if wit:
            w = "%02d:%02d:%02d:%d" % tuple(fplia.model_int(wit[0], x) for x in (H, M, S, F))
        return result("holds", ctx, witness=w, functions=fns, bounds=bounds)
    if st == "unknown":
        return result("inconclusive", ctx, detail="solver unknown", functions=fns, bounds=bounds)
    h, mi, s, f = (fplia.model_int(m, x) for x in (H, M, S, F))
    off = fplia.model_int(m, O) if with_offset else 0
    stamp = "%02d:%02d:%02d%s%d" % (h, mi, s, ";" if drop else ":", f)
    got = fn(stamp, off)
    exact = max(Fr(0), Fr((30 * (3600 * h + 60 * mi + s) + f) * num * 10**6, 30 * den) - off)
    bad = abs(Fr(got) - exact) > Fr(1, 1024)
    # public API: a caption whose EOC is the first word of a line with that timecode
    line_f = min(f, 29)
    code = REPLAY_HEAD + f'''from fractions import Fraction
from pycaption.scc import _SccTimeTranslator
got = _SccTimeTranslator._translate_time({stamp!r}, {off})
exact = Fraction({exact.numerator}, {exact.denominator})
print("timecode", {stamp!r}, "offset", {off}, "->", repr(got), "exact", float(exact))
sys.exit(1 if abs(Fraction(got) - exact) > Fraction(1, 1024) else 0)
'''
    return result("violated", ctx, counterexample={"timecode": stamp, "offset_us": off, "got": got, "exact": float(exact)}, reproduced=bool(bad),
                  replay_code=code, functions=fns, bounds=bounds, detail=f"_translate_time({stamp!r}, {off}) = {got!r}, exact {float(exact)}")
