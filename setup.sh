#!/bin/sh
# Build /verif/.venv: an overlay of /venv (pycaption's own environment, editable
# install of /repo) plus crosshair-tool, z3-solver and cvc5 from the offline wheelhouse.
# Idempotent; safe to call from every check.
set -e
V=/verif/.venv
if [ -x "$V/bin/python" ] && "$V/bin/python" -c "import crosshair, z3, pycaption, bs4" 2>/dev/null; then
    exit 0
fi
exec 9>/verif/.setup.lock
flock 9
if [ -x "$V/bin/python" ] && "$V/bin/python" -c "import crosshair, z3, pycaption, bs4" 2>/dev/null; then
    exit 0
fi
rm -rf "$V"
/venv/bin/python -m venv "$V"
SP=$("$V/bin/python" -c "import sysconfig; print(sysconfig.get_paths()['purelib'])")
echo "import site; site.addsitedir('/venv/lib/python3.12/site-packages')" > "$SP/zz_overlay.pth"
PIP_NO_INDEX=1 "$V/bin/python" -m pip install -q --no-index --find-links /opt/veriftools/wheels crosshair-tool z3-solver cvc5 >/dev/null
"$V/bin/python" -c "import crosshair, z3, pycaption, bs4; print('verif venv ok', pycaption.__file__)"
