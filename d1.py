from pycaption.dfxp import DFXPReader
from pycaption import SAMIReader
d = '''<tt xml:lang="en" xmlns="http://www.w3.org/ns/ttml"><body><div><p begin="1s" end="2s">foo
      bar baz<br/>second
      line</p></div></body></tt>'''
print(repr(DFXPReader().read(d).get_captions('en')[0].get_text()))
s = '<SAMI><BODY><SYNC start=1000><P class=ENCC>foo\n   bar baz<br>second\n  line</P></SYNC></BODY></SAMI>'
c = SAMIReader().read(s); print([repr(x.get_text()) for l in c.get_languages() for x in c.get_captions(l)])
