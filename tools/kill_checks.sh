#!/bin/sh
# stops every running check / crosshair process (used interactively when a run has to be abandoned)
for p in $(pgrep -f "crosshair check") $(pgrep -f "checks/C[0-9][0-9].py") $(pgrep -f "tools/run_quick.sh") $(pgrep -f "tools/run_thorough.sh") $(pgrep -f "tools/eval_all.py"); do
  [ "$p" != "$$" ] && kill "$p" 2>/dev/null
done
exit 0
