#!/bin/sh
# usage: tools/verify_seed.sh <dir with patch.diff demo.py>   -- confirms a seeded change in a scratch worktree
set -e
D=$(readlink -f "$1")
W=/tmp/wt_verify_$$
git -C /repo worktree add -q "$W" HEAD
trap 'git -C /repo worktree remove --force "$W"' EXIT
cd "$W"
mkdir -p seeded/x && cp "$D/demo.py" seeded/x/demo.py
/venv/bin/python seeded/x/demo.py >/dev/null 2>&1 && echo "clean: demo exit 0 (ok)" || { echo "clean: demo FAILED on clean tree"; exit 2; }
git apply "$D/patch.diff"
T=$(/venv/bin/python -m pytest -q -p no:cacheprovider --continue-on-collection-errors 2>&1 | tail -1)
echo "patched tests: $T"
if /venv/bin/python seeded/x/demo.py >/tmp/demo_out_$$ 2>&1; then echo "patched: demo exit 0 (NOT detected by demo)"; exit 3; else echo "patched: demo exit $? (ok)"; fi
tail -3 /tmp/demo_out_$$; rm -f /tmp/demo_out_$$
case "$T" in *"217 passed"*) echo VERIFIED;; *) echo "TESTS CHANGED"; exit 4;; esac
