#!/bin/sh
# usage: tools/try_seed.sh <seed name> <check id> [--only pattern]   -- one seed, one check (optionally some obligations), in a scratch worktree
s=$1; pid=$2; shift 2
W=/tmp/wt_try_$s_$$
git -C /repo worktree add -q $W HEAD && git -C $W apply /verif/seeded/$s/patch.diff || exit 9
cd /verif && VERIF_REPO=$W PYTHONPATH=$W /verif/.venv/bin/python checks/$pid.py "$@" 2>&1 | grep -E "VIOLATION|INCONCLUSIVE|tier=|violated|PUBLIC" | cut -c1-260
git -C /repo worktree remove --force $W
