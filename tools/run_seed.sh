#!/bin/sh
# usage: tools/run_seed.sh <dir with patch.diff> <check id> [extra args]  -- applies the change to /repo, runs the check, undoes it
D=$(readlink -f "$1"); C=$2; shift 2
git -C /repo diff --quiet || { echo "/repo is dirty"; exit 9; }
git -C /repo apply "$D/patch.diff" || exit 9
/verif/.venv/bin/python /verif/checks/$C.py "$@" 2>&1 | grep -E "VIOLATION|INCONCLUSIVE|KNOWN|tier=|violated" | cut -c1-300
git -C /repo checkout -- .
