#!/bin/sh
# usage: tools/run_quick.sh C01 C02 ...   (sequential; log per property under /tmp/quick_<id>.log)
cd /verif
for p in "$@"; do
  S=$(date +%s)
  /verif/.venv/bin/python checks/$p.py --tier quick > /tmp/quick_$p.log 2>&1
  rc=$?
  E=$(date +%s)
  echo "$p rc=$rc wall=$((E-S))s $(tail -1 /tmp/quick_$p.log | cut -c1-160)"
done
