#!/usr/bin/env python3
"""usage: tools/eval_all.py [-j N] [seed names...]   -> seeded/RESULTS.md
Runs, for every seeded change, the quick check of the seed's own property against a scratch worktree of /repo with the
change applied (VERIF_REPO; /repo itself is never touched), and records which obligations report the violation."""
import json, os, re, subprocess, sys, time
from concurrent.futures import ThreadPoolExecutor

V = "/verif"


def one(seed):
    pid = seed.split("_")[0]
    w = f"/tmp/wt_evalall_{seed}"
    subprocess.run(["git", "-C", "/repo", "worktree", "add", "-q", w, "HEAD"], check=True)
    try:
        ap = subprocess.run(["git", "-C", w, "apply", f"{V}/seeded/{seed}/patch.diff"], capture_output=True, text=True)
        if ap.returncode != 0:
            return seed, "PATCH DOES NOT APPLY", [], 0
        t = time.time()
        env = dict(os.environ, VERIF_REPO=w, PYTHONPATH=w, VERIF_OUT=f"/tmp/evalall_out_{seed}")
        p = subprocess.run([f"{V}/.venv/bin/python", f"{V}/checks/{pid}.py", "--tier", "quick"], capture_output=True, text=True, env=env, cwd=V)
        out = p.stdout + p.stderr
        hits = re.findall(r"^\[%s\] (\S+)\s+violated" % pid, out, re.M)
        return seed, f"exit={p.returncode}", hits, time.time() - t
    finally:
        subprocess.run(["git", "-C", "/repo", "worktree", "remove", "--force", w])
        subprocess.run(["rm", "-rf", f"/tmp/evalall_out_{seed}"])


def main():
    args = sys.argv[1:]
    j = 3
    if args[:1] == ["-j"]:
        j = int(args[1]); args = args[2:]
    seeds = args or sorted(d for d in os.listdir(f"{V}/seeded") if os.path.isdir(f"{V}/seeded/{d}"))
    with ThreadPoolExecutor(max_workers=j) as ex:
        res = list(ex.map(one, seeds))
    head = subprocess.check_output(["git", "-C", "/repo", "log", "--format=%h", "-1"], text=True).strip()
    lines = ["# Seeded changes: last complete evaluation", "",
             f"/repo HEAD {head}; each seed applied in a scratch worktree; quick tier of the seed's own property.", "",
             "| seed | title | check result | obligations reporting the violation |", "|---|---|---|---|"]
    rows = {}
    if args and os.path.exists(f"{V}/seeded/RESULTS.md"):   # partial re-evaluation: keep the other rows
        for ln in open(f"{V}/seeded/RESULTS.md"):
            m = re.match(r"\| (C\d\d_m\d+) \|", ln)
            if m:
                rows[m.group(1)] = ln.rstrip("\n")
    for seed, rc, hits, wall in res:
        title = json.load(open(f"{V}/seeded/{seed}/meta.json")).get("title", "")[:110].replace("|", "/")
        rows[seed] = f"| {seed} | {title} | {rc} ({wall:.0f} s) | {', '.join(hits) or '-'} |"
        print(rows[seed], flush=True)
    lines += [rows[k] for k in sorted(rows)]
    caught = sum(1 for r in rows.values() if "| exit=1 (" in r and not r.rstrip().endswith("| - |"))
    lines += ["", f"{caught} of {len(rows)} seeded changes reported as VIOLATION (exit 1) by the check of their property."]
    open(f"{V}/seeded/RESULTS.md", "w").write("\n".join(lines) + "\n")
    print(lines[-1])


main()
