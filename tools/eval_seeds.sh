#!/bin/sh
# usage: tools/eval_seeds.sh <seed names...>
# Runs each seed's own property check (quick tier) against a scratch worktree of /repo with the seeded
# change applied (VERIF_REPO), leaving /repo untouched.  Registered checks always use /repo itself.
cd /verif
for s in "$@"; do
  pid=$(echo $s | cut -d_ -f1)
  [ -f checks/$pid.py ] || { echo "$s: no check for $pid"; continue; }
  W=/tmp/wt_eval_$s
  git -C /repo worktree add -q $W HEAD && git -C $W apply /verif/seeded/$s/patch.diff
  out=$(VERIF_REPO=$W PYTHONPATH=$W /verif/.venv/bin/python checks/$pid.py --tier ${TIER:-quick} 2>&1)
  git -C /repo worktree remove --force $W
  rc=$(echo "$out" | grep -o "exit=[0-9]*" | tail -1)
  echo "=== $s $rc"
  echo "$out" | grep -E "VIOLATION|INCONCLUSIVE" | cut -c1-250 | head -4
done
