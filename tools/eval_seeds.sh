#!/bin/sh
# usage: tools/eval_seeds.sh <seed names...>   (runs each seed's own property check, quick tier) -> seeded/RESULTS.txt lines
cd /verif
for s in "$@"; do
  pid=$(echo $s | cut -d_ -f1)
  [ -f checks/$pid.py ] || { echo "$s: no check for $pid"; continue; }
  out=$(tools/run_seed.sh seeded/$s $pid --tier quick 2>&1)
  rc=$(echo "$out" | grep -o "exit=[0-9]*" | tail -1)
  echo "=== $s $rc"
  echo "$out" | grep -E "VIOLATION|INCONCLUSIVE" | head -4
done
