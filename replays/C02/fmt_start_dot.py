"""Replay of a counterexample for C02 obligation fmt_start_dot.
CrossHair message: "false when calling fmt_start_dot(1009999) (which returns 'millis')"
Runs the same harness body on the concrete arguments in a plain interpreter (no CrossHair,
no plugin): the harness drives the real pycaption code from /repo; exit 1 = reproduced."""
import sys
sys.path[:0] = ['/verif']
from harness.C02_fmt import *  # noqa
import harness.C02_fmt as _m
try:
    _r = _m.fmt_start_dot(1009999)
except Exception as _e:
    print("REPLAY raised", type(_e).__name__, _e)
    sys.exit(1)
print("REPLAY returned", repr(_r))
sys.exit(0 if _r == "" or _r is True or _r is None else 1)
